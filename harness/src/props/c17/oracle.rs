//! Fidelity oracle: expected rows computed from the logical request by the harness alone,
//! compared with the rows the receiver produced.

use super::model::PReq;
use arrow_array::{Array, Float64Array, Int64Array, RecordBatch, StringArray, TimestampNanosecondArray, UInt64Array};
use arrow_schema::DataType;
use opentelemetry_proto::tonic::collector::metrics::v1::ExportMetricsServiceRequest;
use opentelemetry_proto::tonic::common::v1::{any_value, KeyValue};
use opentelemetry_proto::tonic::metrics::v1::{metric::Data, number_data_point};
use std::collections::BTreeMap;

pub const FIXED: [&str; 5] = ["timestamp", "metric_name", "value_f64", "value_i64", "value_u64"];

#[derive(Clone, Debug)]
pub struct ActRow {
    pub ts: i64,
    pub name: Option<String>,
    pub f: Option<f64>,
    pub i: Option<i64>,
    pub u: Option<u64>,
    /// non-null label cells
    pub labels: BTreeMap<String, String>,
}

#[derive(Clone, Debug)]
pub enum ExpVal {
    F(f64),
    I(i128),
    Any,
    OneOf(Vec<ExpVal>),
}

#[derive(Clone, Debug)]
pub enum LabelExp {
    Exact(String),
    OneOf(Vec<String>),
    /// present with some rendering the property does not prescribe (non-string attribute values)
    AnyNonNull,
    /// absent-or-empty (an attribute without a value)
    NullOrEmpty,
}

#[derive(Clone, Debug)]
pub struct ExpRow {
    pub ts: i128,
    /// None: the property does not say what the name of a nameless series is
    pub name: Option<String>,
    pub labels: BTreeMap<String, LabelExp>,
    pub val: ExpVal,
    pub origin: String,
}

/// Extract rows from what the receiver produced. Columns are found by name; everything that is not
/// one of the five fixed columns is a label column.
pub fn extract_rows(batches: &[RecordBatch]) -> Result<Vec<ActRow>, (String, String)> {
    let mut out = Vec::new();
    for b in batches {
        let schema = b.schema();
        let mut seen = std::collections::BTreeSet::new();
        for f in schema.fields() {
            if !seen.insert(f.name().clone()) {
                return Err(("duplicate-column".into(), format!("the produced batch has two columns named {:?}", f.name())));
            }
        }
        let ts = b
            .column_by_name("timestamp")
            .ok_or(("no-timestamp-column".to_string(), "no timestamp column".to_string()))?;
        let ts = match ts.data_type() {
            DataType::Timestamp(arrow_schema::TimeUnit::Nanosecond, _) => ts.as_any().downcast_ref::<TimestampNanosecondArray>().unwrap().clone(),
            other => return Err(("timestamp-column-type".into(), format!("timestamp column has type {other:?}, not nanoseconds"))),
        };
        let as_str = |name: &str| -> Result<Option<StringArray>, (String, String)> {
            match b.column_by_name(name) {
                None => Ok(None),
                Some(c) => {
                    let c = arrow::compute::cast(c, &DataType::Utf8).map_err(|e| ("column-not-string".to_string(), format!("column {name}: {e}")))?;
                    Ok(Some(c.as_any().downcast_ref::<StringArray>().unwrap().clone()))
                }
            }
        };
        let name = as_str("metric_name")?;
        let f = b.column_by_name("value_f64").and_then(|c| c.as_any().downcast_ref::<Float64Array>().cloned());
        let i = b.column_by_name("value_i64").and_then(|c| c.as_any().downcast_ref::<Int64Array>().cloned());
        let u = b.column_by_name("value_u64").and_then(|c| c.as_any().downcast_ref::<UInt64Array>().cloned());
        let mut label_cols = Vec::new();
        for fl in schema.fields() {
            if !FIXED.contains(&fl.name().as_str()) {
                label_cols.push((fl.name().clone(), as_str(fl.name())?.unwrap()));
            }
        }
        for r in 0..b.num_rows() {
            if ts.is_null(r) {
                return Err(("timestamp-null".into(), format!("row {r} has a null timestamp")));
            }
            let mut labels = BTreeMap::new();
            for (n, c) in &label_cols {
                if !c.is_null(r) {
                    labels.insert(n.clone(), c.value(r).to_string());
                }
            }
            out.push(ActRow {
                ts: ts.value(r),
                name: name.as_ref().and_then(|c| if c.is_null(r) { None } else { Some(c.value(r).to_string()) }),
                f: f.as_ref().and_then(|c| if c.is_null(r) { None } else { Some(c.value(r)) }),
                i: i.as_ref().and_then(|c| if c.is_null(r) { None } else { Some(c.value(r)) }),
                u: u.as_ref().and_then(|c| if c.is_null(r) { None } else { Some(c.value(r)) }),
                labels,
            });
        }
    }
    Ok(out)
}

/// Exact integer value of a float, if it is one.
pub fn exact_int(x: f64) -> Option<i128> {
    if x.is_finite() && x.fract() == 0.0 && x.abs() < 1.0e38 {
        Some(x as i128)
    } else {
        None
    }
}

fn show_f(x: f64) -> String {
    match exact_int(x) {
        Some(n) if x.abs() < 1.0e22 => {
            if x == 0.0 && x.is_sign_negative() {
                "-0.0".into()
            } else {
                format!("{n}")
            }
        }
        _ => format!("{x:?}"),
    }
}

fn show_exp(e: &ExpVal) -> String {
    match e {
        ExpVal::F(x) => show_f(*x),
        ExpVal::I(n) => format!("int:{n}"),
        ExpVal::Any => "any".into(),
        ExpVal::OneOf(v) => v.iter().map(show_exp).collect::<Vec<_>>().join("|"),
    }
}

/// Is the stored cell numerically equal to the expected value?
fn cell_eq(e: &ExpVal, f: Option<f64>, i: Option<i64>, u: Option<u64>) -> bool {
    match e {
        ExpVal::Any => true,
        ExpVal::OneOf(v) => v.iter().any(|x| cell_eq(x, f, i, u)),
        ExpVal::F(x) => {
            if let Some(c) = f {
                if x.is_nan() {
                    c.is_nan()
                } else {
                    c == *x
                }
            } else if let Some(c) = i {
                exact_int(*x) == Some(c as i128)
            } else if let Some(c) = u {
                exact_int(*x) == Some(c as i128)
            } else {
                false
            }
        }
        ExpVal::I(n) => {
            if let Some(c) = f {
                exact_int(c) == Some(*n)
            } else if let Some(c) = i {
                c as i128 == *n
            } else if let Some(c) = u {
                c as i128 == *n
            } else {
                false
            }
        }
    }
}

/// Compare one produced row with one expected row. Err = (signature part, message).
pub fn match_row(e: &ExpRow, a: &ActRow, foreign_label_values: &dyn Fn(&str, &str) -> bool) -> Result<(), (String, String)> {
    if a.ts as i128 != e.ts {
        let class = if e.ts != 0 && a.ts as i128 * 1000 == e.ts {
            "scaled-by-1e3-instead-of-1e6".to_string()
        } else if e.ts != 0 && a.ts as i128 == e.ts * 1000 {
            "scaled-by-1e9-instead-of-1e6".to_string()
        } else if e.ts > i64::MAX as i128 || e.ts < i64::MIN as i128 {
            "not-expressible-in-i64-ns-but-accepted".to_string()
        } else {
            "other".to_string()
        };
        return Err((format!("timestamp-wrong:{class}"), format!("{}: timestamp stored {} ns, exact {} ns", e.origin, a.ts, e.ts)));
    }
    if let Some(n) = &e.name {
        if a.name.as_deref() != Some(n.as_str()) {
            return Err(("metric-name-wrong".into(), format!("{}: metric name stored {:?}, expected {:?}", e.origin, a.name, n)));
        }
    }
    for (k, le) in &e.labels {
        let got = a.labels.get(k);
        let ok = match (le, got) {
            (LabelExp::Exact(v), Some(g)) => g == v,
            (LabelExp::OneOf(vs), Some(g)) => vs.contains(g),
            (LabelExp::AnyNonNull, Some(_)) => true,
            (LabelExp::NullOrEmpty, None) => true,
            (LabelExp::NullOrEmpty, Some(g)) => g.is_empty(),
            (_, None) => false,
        };
        if !ok {
            let sig = match got {
                None => "label-missing".to_string(),
                Some(g) if foreign_label_values(k, g) => "label-of-another-series".to_string(),
                Some(_) => "label-wrong-value".to_string(),
            };
            return Err((sig, format!("{}: label {k:?} stored {:?}, expected {:?}", e.origin, got, le)));
        }
    }
    for (k, g) in &a.labels {
        // A column that no series / point of the request uses as a label is none of this property's
        // business (an implementation may add columns of its own): `foreign_label_values(k, "")` tells
        // whether `k` is a label name of the request at all.
        if !e.labels.contains_key(k) && !g.is_empty() && foreign_label_values(k, "") {
            let sig = if foreign_label_values(k, g) { "label-of-another-series" } else { "label-spurious" };
            return Err((sig.into(), format!("{}: label {k:?}={g:?} stored but the series / point has no such label", e.origin)));
        }
    }
    let mut cells = Vec::new();
    if let Some(c) = a.f {
        cells.push(("value_f64", show_f(c), cell_eq(&e.val, Some(c), None, None)));
    }
    if let Some(c) = a.i {
        cells.push(("value_i64", format!("{c}"), cell_eq(&e.val, None, Some(c), None)));
    }
    if let Some(c) = a.u {
        cells.push(("value_u64", format!("{c}"), cell_eq(&e.val, None, None, Some(c))));
    }
    if cells.is_empty() && !matches!(e.val, ExpVal::Any) {
        return Err(("value-missing".into(), format!("{}: no value column is set, expected {}", e.origin, show_exp(&e.val))));
    }
    for (col, shown, ok) in cells {
        if !ok {
            // an integer that went through a float: the stored float is the rounding of the integer
            if let (Some(c), "value_f64") = (a.f, col) {
                let ints: Vec<i128> = match &e.val {
                    ExpVal::I(n) => vec![*n],
                    ExpVal::OneOf(v) => v.iter().filter_map(|x| if let ExpVal::I(n) = x { Some(*n) } else { None }).collect(),
                    _ => vec![],
                };
                if ints.iter().any(|n| *n as f64 == c) {
                    return Err(("integer-value-rounded-in-f64-column".into(), format!("{}: integer value {} stored as {}={}", e.origin, show_exp(&e.val), col, shown)));
                }
            }
            return Err((
                format!("value-not-equal:{}->{}={}", show_exp(&e.val), col, shown),
                format!("{}: value {} stored as {}={}", e.origin, show_exp(&e.val), col, shown),
            ));
        }
    }
    Ok(())
}

/// Compare all rows. Row order is not prescribed by the property: first try positionally (what the
/// code does today), then any assignment.
pub fn match_rows(exp: &[ExpRow], act: &[ActRow]) -> Result<(), (String, String)> {
    if act.len() < exp.len() {
        return Err(("rows-lost".into(), format!("{} samples / points sent, {} rows produced", exp.len(), act.len())));
    }
    if act.len() > exp.len() {
        return Err(("rows-extra".into(), format!("{} samples / points sent, {} rows produced", exp.len(), act.len())));
    }
    let foreign = |owner: usize| {
        move |k: &str, v: &str| {
            if v.is_empty() {
                // query: is `k` a label name anywhere in the request?
                return exp.iter().any(|o| o.labels.contains_key(k));
            }
            exp.iter().enumerate().any(|(j, o)| {
                j != owner
                    && exp[j].origin.split(' ').next() != exp[owner].origin.split(' ').next()
                    && match o.labels.get(k) {
                        Some(LabelExp::Exact(x)) => x == v,
                        Some(LabelExp::OneOf(xs)) => xs.iter().any(|x| x == v),
                        _ => false,
                    }
            })
        }
    };
    let mut first_err = None;
    for (idx, (e, a)) in exp.iter().zip(act).enumerate() {
        if let Err(x) = match_row(e, a, &foreign(idx)) {
            first_err = Some(x);
            break;
        }
    }
    let Some(first_err) = first_err else { return Ok(()) };
    // order-insensitive: backtracking assignment
    let n = exp.len();
    if n <= 10 {
        let ok: Vec<Vec<bool>> = exp.iter().enumerate().map(|(i, e)| act.iter().map(|a| match_row(e, a, &foreign(i)).is_ok()).collect()).collect();
        fn assign(i: usize, n: usize, ok: &[Vec<bool>], used: &mut Vec<bool>) -> bool {
            if i == n {
                return true;
            }
            for j in 0..n {
                if ok[i][j] && !used[j] {
                    used[j] = true;
                    if assign(i + 1, n, ok, used) {
                        return true;
                    }
                    used[j] = false;
                }
            }
            false
        }
        if assign(0, n, &ok, &mut vec![false; n]) {
            return Ok(());
        }
    }
    // No assignment works. Blame the most similar pairing (not the positional one: rows may legitimately
    // come in another order): greedily pair every expected row with the unused produced row that agrees
    // in most aspects, report the first pair that disagrees.
    let score = |e: &ExpRow, a: &ActRow| -> usize {
        let mut sc = 0;
        if a.ts as i128 == e.ts {
            sc += 1;
        }
        if e.name.is_none() || a.name == e.name {
            sc += 1;
        }
        let probe = |ts: bool, name: bool, labels: bool, val: bool| {
            let e2 = ExpRow {
                ts: if ts { e.ts } else { a.ts as i128 },
                name: if name { e.name.clone() } else { None },
                labels: if labels { e.labels.clone() } else { a.labels.iter().map(|(k, v)| (k.clone(), LabelExp::Exact(v.clone()))).collect() },
                val: if val { e.val.clone() } else { ExpVal::Any },
                origin: String::new(),
            };
            match_row(&e2, a, &|_, _| false).is_ok()
        };
        if probe(false, false, true, false) {
            sc += 1;
        }
        if probe(false, false, false, true) {
            sc += 1;
        }
        sc
    };
    let mut used = vec![false; act.len()];
    let mut blame = None;
    for (i, e) in exp.iter().enumerate() {
        let best = (0..act.len()).filter(|j| !used[*j]).max_by_key(|j| (score(e, &act[*j]), std::cmp::Reverse(*j)));
        if let Some(j) = best {
            used[j] = true;
            if blame.is_none() {
                if let Err(x) = match_row(e, &act[j], &foreign(i)) {
                    blame = Some(x);
                }
            }
        }
    }
    Err(blame.unwrap_or(first_err))
}

// ---------------------------------------------------------------- remote write

pub struct PromExpect {
    pub rows: Vec<ExpRow>,
    /// some series has no `__name__`: rejecting the request is acceptable
    pub nameless: bool,
    /// some timestamp cannot be expressed in i64 nanoseconds: only an error answer can be right
    pub unrepresentable: bool,
}

pub fn prom_expected(req: &PReq) -> PromExpect {
    let mut rows = Vec::new();
    let mut nameless = false;
    let mut unrepresentable = false;
    for (si, s) in req.series.iter().enumerate() {
        let name = s.labels.iter().rev().find(|(n, _)| n == "__name__").map(|(_, v)| v.clone());
        if name.is_none() {
            nameless = true;
        }
        let labels: BTreeMap<String, LabelExp> = s.labels.iter().filter(|(n, _)| n != "__name__").map(|(n, v)| (n.clone(), LabelExp::Exact(v.clone()))).collect();
        for (k, sm) in s.samples.iter().enumerate() {
            let ts = sm.ts_ms as i128 * 1_000_000;
            if ts > i64::MAX as i128 || ts < i64::MIN as i128 {
                unrepresentable = true;
            }
            rows.push(ExpRow { ts, name: name.clone(), labels: labels.clone(), val: ExpVal::F(sm.v()), origin: format!("series#{si} sample#{k}") });
        }
    }
    PromExpect { rows, nameless, unrepresentable }
}

// ---------------------------------------------------------------- OTLP

pub struct OtlpExpect {
    pub rows: Vec<ExpRow>,
    pub unrepresentable: bool,
}

fn attr_labels(kvs: &[KeyValue]) -> BTreeMap<String, LabelExp> {
    let mut m = BTreeMap::new();
    for kv in kvs {
        let le = match kv.value.as_ref().and_then(|v| v.value.as_ref()) {
            Some(any_value::Value::StringValue(s)) => LabelExp::Exact(s.clone()),
            Some(_) => LabelExp::AnyNonNull,
            None => LabelExp::NullOrEmpty,
        };
        // a repeated key within one attribute list is malformed: any of its values is fine
        match m.remove(&kv.key) {
            Some(LabelExp::Exact(a)) => match le {
                LabelExp::Exact(b) => m.insert(kv.key.clone(), LabelExp::OneOf(vec![a, b])),
                _ => m.insert(kv.key.clone(), LabelExp::AnyNonNull),
            },
            Some(_) => m.insert(kv.key.clone(), LabelExp::AnyNonNull),
            None => m.insert(kv.key.clone(), le),
        };
    }
    m
}

fn merge(res: &BTreeMap<String, LabelExp>, pt: &BTreeMap<String, LabelExp>) -> BTreeMap<String, LabelExp> {
    let mut m = res.clone();
    for (k, v) in pt {
        let nv = match (m.get(k), v) {
            // the same key on the resource and on the point: the property does not say which wins
            (Some(LabelExp::Exact(a)), LabelExp::Exact(b)) => LabelExp::OneOf(vec![a.clone(), b.clone()]),
            (Some(_), _) => LabelExp::AnyNonNull,
            (None, v) => v.clone(),
        };
        m.insert(k.clone(), nv);
    }
    m
}

pub fn otlp_expected(req: &ExportMetricsServiceRequest) -> OtlpExpect {
    let mut rows = Vec::new();
    let mut unrepresentable = false;
    for (ri, rm) in req.resource_metrics.iter().enumerate() {
        let rl = rm.resource.as_ref().map(|r| attr_labels(&r.attributes)).unwrap_or_default();
        for (si, sm) in rm.scope_metrics.iter().enumerate() {
            for (mi, m) in sm.metrics.iter().enumerate() {
                let mut push = |pi: usize, t: u64, attrs: &[KeyValue], val: ExpVal| {
                    if t > i64::MAX as u64 {
                        unrepresentable = true;
                    }
                    rows.push(ExpRow {
                        ts: t as i128,
                        name: Some(m.name.clone()),
                        labels: merge(&rl, &attr_labels(attrs)),
                        val,
                        origin: format!("res#{ri}/scope#{si}/metric#{mi}({}) point#{pi}", m.name),
                    });
                };
                match &m.data {
                    Some(Data::Gauge(g)) => {
                        for (pi, p) in g.data_points.iter().enumerate() {
                            push(pi, p.time_unix_nano, &p.attributes, number_val(&p.value));
                        }
                    }
                    Some(Data::Sum(s)) => {
                        for (pi, p) in s.data_points.iter().enumerate() {
                            push(pi, p.time_unix_nano, &p.attributes, number_val(&p.value));
                        }
                    }
                    // which scalar stands for a histogram / summary point is not prescribed: its sum or its count
                    Some(Data::Histogram(h)) => {
                        for (pi, p) in h.data_points.iter().enumerate() {
                            let mut alts = vec![ExpVal::I(p.count as i128)];
                            if let Some(s) = p.sum {
                                alts.push(ExpVal::F(s));
                            }
                            push(pi, p.time_unix_nano, &p.attributes, ExpVal::OneOf(alts));
                        }
                    }
                    Some(Data::ExponentialHistogram(h)) => {
                        for (pi, p) in h.data_points.iter().enumerate() {
                            let mut alts = vec![ExpVal::I(p.count as i128)];
                            if let Some(s) = p.sum {
                                alts.push(ExpVal::F(s));
                            }
                            push(pi, p.time_unix_nano, &p.attributes, ExpVal::OneOf(alts));
                        }
                    }
                    Some(Data::Summary(s)) => {
                        for (pi, p) in s.data_points.iter().enumerate() {
                            push(pi, p.time_unix_nano, &p.attributes, ExpVal::OneOf(vec![ExpVal::F(p.sum), ExpVal::I(p.count as i128)]));
                        }
                    }
                    None => {}
                }
            }
        }
    }
    OtlpExpect { rows, unrepresentable }
}

fn number_val(v: &Option<number_data_point::Value>) -> ExpVal {
    match v {
        Some(number_data_point::Value::AsDouble(d)) => ExpVal::F(*d),
        Some(number_data_point::Value::AsInt(i)) => ExpVal::I(*i as i128),
        None => ExpVal::Any,
    }
}
