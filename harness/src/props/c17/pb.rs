//! A tiny protobuf wire-format tree: the harness's own writer (never the code under test), with
//! exact knowledge of where every varint (tag / length / value) sits, so that single varints can be
//! replaced either "raw" (enclosing lengths untouched) or "consistently" (enclosing lengths recomputed,
//! so the altered field really reaches the inner parser).

#[derive(Clone, Debug, PartialEq)]
pub enum Node {
    Varint { field: u32, v: u64 },
    Fixed64 { field: u32, b: [u8; 8] },
    Fixed32 { field: u32, b: [u8; 4] },
    Bytes { field: u32, b: Vec<u8> },
    Msg { field: u32, kids: Vec<Node> },
}

impl Node {
    pub fn str(field: u32, s: &str) -> Node {
        Node::Bytes { field, b: s.as_bytes().to_vec() }
    }
    pub fn f64(field: u32, v: f64) -> Node {
        Node::Fixed64 { field, b: v.to_le_bytes() }
    }
    pub fn i64(field: u32, v: i64) -> Node {
        Node::Varint { field, v: v as u64 }
    }
    fn tag(&self) -> u64 {
        match self {
            Node::Varint { field, .. } => (*field as u64) << 3,
            Node::Fixed64 { field, .. } => ((*field as u64) << 3) | 1,
            Node::Bytes { field, .. } | Node::Msg { field, .. } => ((*field as u64) << 3) | 2,
            Node::Fixed32 { field, .. } => ((*field as u64) << 3) | 5,
        }
    }
}

pub fn varint(mut v: u64) -> Vec<u8> {
    let mut o = Vec::with_capacity(10);
    loop {
        let b = (v & 0x7f) as u8;
        v >>= 7;
        if v == 0 {
            o.push(b);
            return o;
        }
        o.push(b | 0x80);
    }
}

/// `v` encoded in exactly `n` bytes (n >= canonical length, n <= 10): a non-canonical but valid varint.
pub fn varint_padded(v: u64, n: usize) -> Vec<u8> {
    let mut o = varint(v);
    while o.len() < n {
        let l = o.len();
        o[l - 1] |= 0x80;
        o.push(0);
    }
    o
}

#[derive(Clone, Copy, Debug, PartialEq)]
pub enum SiteKind {
    Tag,
    Len,
    Val,
}

/// One varint of the canonical encoding.
#[derive(Clone, Debug)]
pub struct Site {
    pub off: usize,
    pub len: usize,
    pub kind: SiteKind,
    pub value: u64,
}

struct St<'a> {
    next: usize,
    over: Option<(usize, &'a [u8])>,
}

impl<'a> St<'a> {
    fn vi(&mut self, v: u64) -> Vec<u8> {
        let id = self.next;
        self.next += 1;
        match self.over {
            Some((i, b)) if i == id => b.to_vec(),
            _ => varint(v),
        }
    }
}

fn enc_node(n: &Node, st: &mut St) -> Vec<u8> {
    let mut o = st.vi(n.tag());
    match n {
        Node::Varint { v, .. } => o.extend(st.vi(*v)),
        Node::Fixed64 { b, .. } => o.extend_from_slice(b),
        Node::Fixed32 { b, .. } => o.extend_from_slice(b),
        Node::Bytes { b, .. } => {
            o.extend(st.vi(b.len() as u64));
            o.extend_from_slice(b);
        }
        Node::Msg { kids, .. } => {
            // site ids are pre-order: reserve the length's id before the children
            let len_id = st.next;
            st.next += 1;
            let mut body = Vec::new();
            for k in kids {
                body.extend(enc_node(k, st));
            }
            match st.over {
                Some((i, b)) if i == len_id => o.extend_from_slice(b),
                _ => o.extend(varint(body.len() as u64)),
            }
            o.extend(body);
        }
    }
    o
}

/// Canonical encoding.
pub fn encode(nodes: &[Node]) -> Vec<u8> {
    let mut st = St { next: 0, over: None };
    nodes.iter().flat_map(|n| enc_node(n, &mut st)).collect()
}

/// Encoding in which varint number `site` (pre-order) is written as `raw`; all enclosing lengths are
/// recomputed, i.e. every ancestor stays well-formed.
pub fn encode_with(nodes: &[Node], site: usize, raw: &[u8]) -> Vec<u8> {
    let mut st = St { next: 0, over: Some((site, raw)) };
    nodes.iter().flat_map(|n| enc_node(n, &mut st)).collect()
}

/// The varints of the canonical encoding, in the same pre-order numbering as `encode_with`.
pub fn sites(nodes: &[Node]) -> Vec<Site> {
    fn walk(nodes: &[Node], mut pos: usize, out: &mut Vec<Site>) -> usize {
        for n in nodes {
            let t = varint(n.tag());
            out.push(Site { off: pos, len: t.len(), kind: SiteKind::Tag, value: n.tag() });
            pos += t.len();
            match n {
                Node::Varint { v, .. } => {
                    let l = varint(*v).len();
                    out.push(Site { off: pos, len: l, kind: SiteKind::Val, value: *v });
                    pos += l;
                }
                Node::Fixed64 { .. } => pos += 8,
                Node::Fixed32 { .. } => pos += 4,
                Node::Bytes { b, .. } => {
                    let l = varint(b.len() as u64).len();
                    out.push(Site { off: pos, len: l, kind: SiteKind::Len, value: b.len() as u64 });
                    pos += l + b.len();
                }
                Node::Msg { kids, .. } => {
                    let body = encode(kids).len();
                    let l = varint(body as u64).len();
                    out.push(Site { off: pos, len: l, kind: SiteKind::Len, value: body as u64 });
                    pos = walk(kids, pos + l, out);
                }
            }
        }
        pos
    }
    let mut out = Vec::new();
    walk(nodes, 0, &mut out);
    out
}

/// Raw replacement: splice `raw` over the site in the canonical bytes, nothing else changes.
pub fn splice(canon: &[u8], s: &Site, raw: &[u8]) -> Vec<u8> {
    let mut o = Vec::with_capacity(canon.len() + raw.len());
    o.extend_from_slice(&canon[..s.off]);
    o.extend_from_slice(raw);
    o.extend_from_slice(&canon[s.off + s.len..]);
    o
}

/// The hostile replacement set for a varint whose honest value is `v` (raw byte strings).
pub fn replacements(v: u64) -> Vec<Vec<u8>> {
    let mut vals: Vec<u64> = vec![
        0,
        1,
        v.wrapping_sub(1),
        v.wrapping_add(1),
        (1 << 31) - 1,
        1 << 31,
        (1u64 << 32) - 1,
        1 << 32,
        (1u64 << 63) - 1,
        1 << 63,
        u64::MAX,
    ];
    // lengths that make `pos + len` wrap around to just before the field
    for k in 2..=16u64 {
        vals.push(u64::MAX - k + 1);
    }
    let mut out: Vec<Vec<u8>> = Vec::new();
    for x in vals {
        if x != v {
            let b = varint(x);
            if !out.contains(&b) {
                out.push(b);
            }
        }
    }
    // 10-byte overlong form of the honest value, 11-byte (too long) form, and an unterminated varint
    out.push(varint_padded(v, 10));
    let mut too_long = vec![0x80u8; 10];
    too_long.push(0x01);
    out.push(too_long);
    out.push(vec![0xff; 10]);
    out
}

/// Heuristic reader used only to find the varint sites of encodings produced by prost (OTLP,
/// FlightData): a length-delimited field that parses completely as a message is treated as one.
/// Misclassifying a string as a message only adds mutation sites. Returns None if `b` is not a
/// sequence of well-formed fields.
pub fn parse(b: &[u8], depth: usize) -> Option<Vec<Node>> {
    fn rd(b: &[u8], pos: &mut usize) -> Option<u64> {
        let mut r = 0u64;
        let mut shift = 0;
        loop {
            let byte = *b.get(*pos)?;
            *pos += 1;
            if shift == 63 && byte > 1 {
                return None;
            }
            r |= ((byte & 0x7f) as u64) << shift;
            if byte & 0x80 == 0 {
                return Some(r);
            }
            shift += 7;
            if shift > 63 {
                return None;
            }
        }
    }
    let mut out = Vec::new();
    let mut pos = 0;
    while pos < b.len() {
        let tag = rd(b, &mut pos)?;
        let field = u32::try_from(tag >> 3).ok()?;
        if field == 0 {
            return None;
        }
        match tag & 7 {
            0 => out.push(Node::Varint { field, v: rd(b, &mut pos)? }),
            1 => {
                let s = b.get(pos..pos + 8)?;
                out.push(Node::Fixed64 { field, b: s.try_into().ok()? });
                pos += 8;
            }
            5 => {
                let s = b.get(pos..pos + 4)?;
                out.push(Node::Fixed32 { field, b: s.try_into().ok()? });
                pos += 4;
            }
            2 => {
                let l = usize::try_from(rd(b, &mut pos)?).ok()?;
                let s = b.get(pos..pos.checked_add(l)?)?;
                pos += l;
                let sub = if !s.is_empty() && depth < 12 { parse(s, depth + 1) } else { None };
                match sub {
                    Some(kids) if encode(&kids) == s => out.push(Node::Msg { field, kids }),
                    _ => out.push(Node::Bytes { field, b: s.to_vec() }),
                }
            }
            _ => return None,
        }
    }
    Some(out)
}
