//! Enumeration of the case spaces. Every generator is deterministic: case number `idx` is the same
//! input in every process (workers partition by idx or by input hash; the parent re-generates a case
//! from its idx when a worker died in it).

use super::model::*;
use super::pb::{self, Node, SiteKind};
use arrow_array::{ArrayRef, Float64Array, Int64Array, RecordBatch, StringArray, TimestampNanosecondArray};
use arrow_schema::{DataType, Field, Schema, TimeUnit};
use opentelemetry_proto::tonic::collector::metrics::v1::ExportMetricsServiceRequest;
use opentelemetry_proto::tonic::common::v1::{any_value, AnyValue, ArrayValue, KeyValue, KeyValueList};
use opentelemetry_proto::tonic::metrics::v1::{
    exemplar, metric::Data, number_data_point, summary_data_point::ValueAtQuantile, Exemplar, ExponentialHistogram, ExponentialHistogramDataPoint, Gauge, Histogram,
    HistogramDataPoint, Metric, NumberDataPoint, ResourceMetrics, ScopeMetrics, Sum, Summary, SummaryDataPoint,
};
use opentelemetry_proto::tonic::resource::v1::Resource;
use prost::Message;
use std::sync::Arc;

pub struct SpaceInfo {
    pub name: &'static str,
    /// inputs are pairwise distinct by construction (partition by idx, no de-duplication set)
    pub unique: bool,
    pub what: &'static str,
}

pub const SPACES: &[SpaceInfo] = &[
    SpaceInfo { name: "rw-values", unique: false, what: "remote write, one series, 1-2 samples: every (value, timestamp) combination of the alphabets" },
    SpaceInfo { name: "rw-wide-span", unique: true, what: "remote write, one series, two samples whose timestamps are 54 years / 292 years / 584 years apart" },
    SpaceInfo { name: "rw-structure", unique: true, what: "remote write, <=3 series x {no name, m1, m2} x host{-,h1,h2} x region{-,r1,r2} x {0,1,2} samples" },
    SpaceInfo { name: "rw-encodings", unique: false, what: "remote write, alternative valid encodings of one request: unknown fields of every wire type at every position, over-long varints, field order, omitted defaults, repeated scalars" },
    SpaceInfo { name: "rw-bytes", unique: true, what: "remote write, every HTTP body of <=2 bytes and every snappy-wrapped payload up to the tier's length" },
    SpaceInfo { name: "rw-mutations", unique: false, what: "remote write, corpus of valid encodings: every prefix, every single-byte substitution, every varint replaced (raw and with consistent enclosing lengths), same for the snappy layer" },
    SpaceInfo { name: "otlp-fidelity", unique: true, what: "OTLP export, <=2 resources x <=2 metrics x <=2 points over gauge/sum/histogram/exp-histogram/summary/no-data, resource and point attributes overlapping or not; value and timestamp alphabets" },
    SpaceInfo { name: "otlp-bytes", unique: false, what: "OTLP bytes to the gRPC layer's prost decoder then export: every string of <=2 bytes; corpus prefixes, byte substitutions, varint replacements" },
    SpaceInfo { name: "flight", unique: false, what: "Flight DoPut: every sequence of <=3 frames over a frame alphabet; per frame header/body prefixes, byte substitutions, 32/64-bit word replacements; protobuf-level mutations of the encoded FlightData" },
];

pub struct Emit<'a> {
    pub idx: u64,
    pub stop: bool,
    pub f: &'a mut dyn FnMut(u64, &dyn Fn() -> Case) -> bool,
}
impl<'a> Emit<'a> {
    pub fn emit(&mut self, mk: &dyn Fn() -> Case) {
        if self.stop {
            return;
        }
        if !(self.f)(self.idx, mk) {
            self.stop = true;
        }
        self.idx += 1;
    }
}

/// Walk the cases of `space`; `f(idx, make_case)` returns false to stop early. Returns the number of cases walked.
pub fn generate(space: &str, tier: &str, f: &mut dyn FnMut(u64, &dyn Fn() -> Case) -> bool) -> u64 {
    let thorough = tier == "thorough";
    let mut e = Emit { idx: 0, stop: false, f };
    match space {
        "rw-values" => rw_values(&mut e, thorough),
        "rw-wide-span" => rw_wide_span(&mut e),
        "rw-structure" => rw_structure(&mut e, thorough),
        "rw-encodings" => rw_encodings(&mut e),
        "rw-bytes" => rw_bytes(&mut e, thorough),
        "rw-mutations" => rw_mutations(&mut e, thorough),
        "otlp-fidelity" => otlp_fidelity(&mut e, thorough),
        "otlp-bytes" => otlp_bytes(&mut e, thorough),
        "flight" => flight(&mut e),
        _ => panic!("unknown space {space}"),
    }
    e.idx
}

pub fn locate(space: &str, tier: &str, idx: u64) -> Option<Case> {
    let mut found = None;
    generate(space, tier, &mut |i, mk| {
        if i == idx {
            found = Some(mk());
            false
        } else {
            true
        }
    });
    found
}

// ------------------------------------------------------------------ remote write: fidelity

fn rw_case(req: PReq, how: &str, handler: bool) -> Case {
    let enc = pb::encode(&req.nodes());
    Case::RwReq { req, enc: Hex(enc), how: how.to_string(), handler }
}

fn one_series(samples: Vec<PSample>) -> PReq {
    PReq { series: vec![PSeries { labels: vec![("__name__".into(), "m".into()), ("host".into(), "h1".into())], samples }] }
}

/// Two in-range timestamps further apart than this make the chunk catalog index the chunk under every
/// hour in between (a separate, known cost): such pairs live in the small `rw-wide-span` space only.
const NARROW_MS: i128 = 1_000_000_000;

fn in_range(t: i64) -> bool {
    (TS_MIN_MS..=TS_MAX_MS).contains(&t)
}
fn narrow(t1: i64, t2: i64) -> bool {
    !in_range(t1) || !in_range(t2) || (t1 as i128 - t2 as i128).abs() <= NARROW_MS
}

fn rw_values(e: &mut Emit, thorough: bool) {
    let vs = values();
    let ts = timestamps_ms();
    for &v in &vs {
        for &t in &ts {
            e.emit(&|| rw_case(one_series(vec![PSample::new(v, t)]), "1 sample", true));
        }
    }
    // second timestamps near each alphabet member, so that every member also occurs in 2-sample requests
    let near = |t: i64| -> Vec<i64> {
        let mut v = vec![];
        if in_range(t) {
            v.push(if t >= TS_MAX_MS { t - 1 } else { t + 1 });
            v.push(if t <= TS_MIN_MS { t + 1000 } else { t - 1000 }.clamp(TS_MIN_MS, TS_MAX_MS));
        }
        v
    };
    if thorough {
        for &v1 in &vs {
            for &t1 in &ts {
                for &v2 in &vs {
                    for &t2 in ts.iter().chain(near(t1).iter()) {
                        if narrow(t1, t2) {
                            e.emit(&|| rw_case(one_series(vec![PSample::new(v1, t1), PSample::new(v2, t2)]), "2 samples", true));
                        }
                    }
                }
            }
        }
    } else {
        for &v1 in &vs {
            for &v2 in &vs {
                e.emit(&|| rw_case(one_series(vec![PSample::new(v1, 1), PSample::new(v2, 2)]), "2 samples, all value pairs", true));
            }
        }
        for &t1 in &ts {
            for &t2 in ts.iter().chain(near(t1).iter()) {
                if narrow(t1, t2) {
                    e.emit(&|| rw_case(one_series(vec![PSample::new(0.5, t1), PSample::new(1.0, t2)]), "2 samples, timestamp pairs", true));
                }
            }
        }
    }
}

/// Requests whose two samples are far apart in time (both expressible in ns).
fn rw_wide_span(e: &mut Emit) {
    for (t1, t2) in [(0, 1_700_000_000_000), (1_700_000_000_000, 0), (0, TS_MAX_MS - 3_600_000), (TS_MIN_MS, 0), (TS_MIN_MS, TS_MAX_MS - 3_600_000), (TS_MAX_MS - 3_600_000, TS_MIN_MS)] {
        e.emit(&|| rw_case(one_series(vec![PSample::new(0.5, t1), PSample::new(1.0, t2)]), "2 samples far apart in time", true));
    }
}

/// option 0..81 of one series: name x host x region x sample count
fn series_opt(si: usize, opt: usize) -> PSeries {
    const SV: [[f64; 2]; 3] = [[1.5, 2.0], [-3.0, 4.25], [5.0, -6.5]];
    let (name, host, region, ns) = (opt % 3, (opt / 3) % 3, (opt / 9) % 3, opt / 27);
    let mut labels = Vec::new();
    if name > 0 {
        labels.push(("__name__".to_string(), format!("m{name}")));
    }
    if host > 0 {
        labels.push(("host".to_string(), format!("h{host}")));
    }
    if region > 0 {
        labels.push(("region".to_string(), format!("r{region}")));
    }
    let samples = (0..ns).map(|k| PSample::new(SV[si][k], 1000 + (si * 2 + k) as i64)).collect();
    PSeries { labels, samples }
}

fn rw_structure(e: &mut Emit, thorough: bool) {
    for a in 0..81 {
        e.emit(&|| rw_case(PReq { series: vec![series_opt(0, a)] }, "1 series", true));
    }
    for a in 0..81 {
        for b in 0..81 {
            e.emit(&|| rw_case(PReq { series: vec![series_opt(0, a), series_opt(1, b)] }, "2 series", true));
        }
    }
    if thorough {
        for a in 0..81 {
            for b in 0..81 {
                for c in 0..81 {
                    e.emit(&|| rw_case(PReq { series: vec![series_opt(0, a), series_opt(1, b), series_opt(2, c)] }, "3 series", true));
                }
            }
        }
    } else {
        // quick: three series with one sample each, all label combinations, through the re-exported
        // parse/convert only (the handler leg is covered for <=2 series)
        for a in 27..54 {
            for b in 27..54 {
                for c in 27..54 {
                    e.emit(&|| rw_case(PReq { series: vec![series_opt(0, a), series_opt(1, b), series_opt(2, c)] }, "3 series, 1 sample each", false));
                }
            }
        }
    }
}

pub fn corpus_req() -> PReq {
    PReq {
        series: vec![
            PSeries {
                labels: vec![("__name__".into(), "cpu".into()), ("host".into(), "h1".into()), ("region".into(), "r1".into())],
                samples: vec![PSample::new(0.5, 1_700_000_000_000), PSample::new(2.0, 1_700_000_015_000)],
            },
            PSeries { labels: vec![("__name__".into(), "mem".into()), ("host".into(), "h2".into())], samples: vec![PSample::new(-3.0, 1_700_000_000_001)] },
        ],
    }
}

/// all message nodes of a tree as index paths (root = empty path)
fn msg_paths(nodes: &[Node]) -> Vec<Vec<usize>> {
    fn walk(nodes: &[Node], cur: &mut Vec<usize>, out: &mut Vec<Vec<usize>>) {
        for (i, n) in nodes.iter().enumerate() {
            if let Node::Msg { kids, .. } = n {
                cur.push(i);
                out.push(cur.clone());
                walk(kids, cur, out);
                cur.pop();
            }
        }
    }
    let mut out = vec![vec![]];
    walk(nodes, &mut vec![], &mut out);
    out
}

fn kids_mut<'a>(nodes: &'a mut Vec<Node>, path: &[usize]) -> &'a mut Vec<Node> {
    let mut cur = nodes;
    for &i in path {
        cur = match &mut cur[i] {
            Node::Msg { kids, .. } => kids,
            _ => panic!("path does not lead to a message"),
        };
    }
    cur
}

fn fillers(depth: usize) -> Vec<(String, Node)> {
    let mut v = vec![
        ("unknown varint field 15".to_string(), Node::Varint { field: 15, v: 300 }),
        ("unknown fixed64 field 15".to_string(), Node::Fixed64 { field: 15, b: [1, 2, 3, 4, 5, 6, 7, 8] }),
        ("unknown fixed32 field 15".to_string(), Node::Fixed32 { field: 15, b: [9, 8, 7, 6] }),
        ("unknown bytes field 15".to_string(), Node::Bytes { field: 15, b: b"xyz".to_vec() }),
        ("unknown empty bytes field 2047".to_string(), Node::Bytes { field: 2047, b: vec![] }),
        ("unknown varint field 16 (2-byte tag)".to_string(), Node::Varint { field: 16, v: u64::MAX }),
    ];
    if depth == 0 {
        // WriteRequest.metadata (field 3), sent by real Prometheus servers
        v.push((
            "WriteRequest.metadata".into(),
            Node::Msg { field: 3, kids: vec![Node::Varint { field: 1, v: 1 }, Node::str(2, "cpu"), Node::str(4, "help text"), Node::str(5, "s")] },
        ));
    }
    if depth == 1 {
        // TimeSeries.exemplars (3) and .histograms (4)
        v.push((
            "TimeSeries.exemplars".into(),
            Node::Msg { field: 3, kids: vec![Node::Msg { field: 1, kids: vec![Node::str(1, "trace_id"), Node::str(2, "abc")] }, Node::f64(2, 1.0), Node::i64(3, 5)] },
        ));
        v.push(("TimeSeries.histograms".into(), Node::Msg { field: 4, kids: vec![Node::Varint { field: 1, v: 7 }, Node::f64(3, 2.5), Node::i64(15, 1000)] }));
    }
    v
}

fn rw_encodings(e: &mut Emit) {
    let req = corpus_req();
    let base = req.nodes();
    let mk = |nodes: &[Node], how: String| Case::RwReq { req: req.clone(), enc: Hex(pb::encode(nodes)), how, handler: true };
    e.emit(&|| mk(&base, "plain".into()));
    // (a) unknown fields at every position of every message
    for path in msg_paths(&base) {
        let n = {
            let mut b = base.clone();
            kids_mut(&mut b, &path).len()
        };
        for pos in 0..=n {
            for (what, filler) in fillers(path.len()) {
                e.emit(&|| {
                    let mut b = base.clone();
                    kids_mut(&mut b, &path).insert(pos, filler.clone());
                    mk(&b, format!("{what} inserted in message {path:?} at position {pos}"))
                });
            }
        }
    }
    // (b) over-long (non-canonical, valid) varints, one at a time, enclosing lengths consistent
    let sites = pb::sites(&base);
    for (si, s) in sites.iter().enumerate() {
        for n in s.len + 1..=10 {
            e.emit(&|| Case::RwReq {
                req: req.clone(),
                enc: Hex(pb::encode_with(&base, si, &pb::varint_padded(s.value, n))),
                how: format!("{:?} varint #{si} (value {}) written in {n} bytes", s.kind, s.value),
                handler: true,
            });
        }
    }
    // (c) field order
    for path in msg_paths(&base).into_iter().filter(|p| !p.is_empty()) {
        e.emit(&|| {
            let mut b = base.clone();
            kids_mut(&mut b, &path).reverse();
            mk(&b, format!("fields of message {path:?} in reverse order"))
        });
        if path.len() == 1 {
            e.emit(&|| {
                let mut b = base.clone();
                let k = kids_mut(&mut b, &path);
                let (labels, samples): (Vec<Node>, Vec<Node>) = k.iter().cloned().partition(|n| matches!(n, Node::Msg { field: 1, .. }));
                let mut out = Vec::new();
                let (mut li, mut si) = (labels.into_iter(), samples.into_iter());
                loop {
                    let (a, b2) = (si.next(), li.next());
                    if a.is_none() && b2.is_none() {
                        break;
                    }
                    out.extend(a);
                    out.extend(b2);
                }
                *k = out;
                mk(&b, format!("labels and samples of series {path:?} interleaved"))
            });
        }
    }
    // (d) omitted defaults (what proto3 writers do for 0 / 0.0), (e) repeated scalar fields: last one wins
    let dreq = PReq {
        series: vec![PSeries {
            labels: vec![("__name__".into(), "cpu".into()), ("host".into(), "h1".into())],
            samples: vec![PSample::new(0.0, 1000), PSample::new(2.5, 0), PSample::new(0.0, 0)],
        }],
    };
    for variant in 0..4 {
        let dreq = dreq.clone();
        e.emit(&move || {
            let mut b = dreq.nodes();
            let how;
            match variant {
                0 => {
                    for p in msg_paths(&b).into_iter().filter(|p| p.len() == 2) {
                        kids_mut(&mut b, &p).retain(|n| !matches!(n, Node::Fixed64 { b, .. } if *b == [0u8; 8]) && !matches!(n, Node::Varint { v: 0, .. }));
                    }
                    how = "zero value / zero timestamp fields omitted";
                }
                1 => {
                    for p in msg_paths(&b).into_iter().filter(|p| p.len() == 2) {
                        let k = kids_mut(&mut b, &p);
                        if matches!(k[0], Node::Fixed64 { .. }) {
                            k.insert(0, Node::f64(1, 99.0));
                            k.insert(1, Node::i64(2, 77));
                        }
                    }
                    how = "every sample carries value and timestamp twice (last one wins)";
                }
                2 => {
                    for p in msg_paths(&b).into_iter().filter(|p| p.len() == 2) {
                        let k = kids_mut(&mut b, &p);
                        if matches!(k[0], Node::Bytes { .. }) {
                            k.insert(0, Node::str(1, "bogus"));
                            k.insert(1, Node::str(2, "bogus"));
                        }
                    }
                    how = "every label carries name and value twice (last one wins)";
                }
                _ => how = "plain (with zero fields present)",
            }
            Case::RwReq { req: dreq.clone(), enc: Hex(pb::encode(&b)), how: how.into(), handler: true }
        });
    }
}

// ------------------------------------------------------------------ remote write: totality

fn rw_bytes(e: &mut Emit, thorough: bool) {
    e.emit(&|| Case::RwBody { body: Hex(vec![]) });
    for a in 0..=255u8 {
        e.emit(&|| Case::RwBody { body: Hex(vec![a]) });
    }
    for a in 0..=255u8 {
        for b in 0..=255u8 {
            e.emit(&|| Case::RwBody { body: Hex(vec![a, b]) });
        }
    }
    e.emit(&|| Case::RwPayload { payload: Hex(vec![]) });
    for a in 0..=255u8 {
        e.emit(&|| Case::RwPayload { payload: Hex(vec![a]) });
    }
    for a in 0..=255u8 {
        for b in 0..=255u8 {
            e.emit(&|| Case::RwPayload { payload: Hex(vec![a, b]) });
        }
    }
    if thorough {
        for a in 0..=255u8 {
            for b in 0..=255u8 {
                for c in 0..=255u8 {
                    e.emit(&|| Case::RwPayload { payload: Hex(vec![a, b, c]) });
                }
            }
        }
    }
}

/// prefixes, single-byte substitutions, varint replacements of one protobuf encoding
fn pb_mutations(nodes: &[Node], substitute: bool, emit: &mut dyn FnMut(&dyn Fn() -> Vec<u8>)) {
    let canon = pb::encode(nodes);
    for l in 0..canon.len() {
        emit(&|| canon[..l].to_vec());
    }
    for off in 0..if substitute { canon.len() } else { 0 } {
        for v in 0..=255u8 {
            emit(&|| {
                let mut b = canon.clone();
                b[off] = v;
                b
            });
        }
    }
    for (si, s) in pb::sites(nodes).iter().enumerate() {
        for raw in pb::replacements(s.value) {
            emit(&|| pb::splice(&canon, s, &raw));
            emit(&|| pb::encode_with(nodes, si, &raw));
        }
        // a length that reaches exactly / one past the end of the enclosing buffer
        if s.kind == SiteKind::Len {
            for extra in [2u64, 3, 8, 127, 128] {
                let raw = pb::varint(s.value + extra);
                emit(&|| pb::splice(&canon, s, &raw));
            }
        }
    }
}

pub fn rw_corpus() -> Vec<(String, Vec<Node>)> {
    let c0 = corpus_req().nodes();
    // c1: the same with unknown fields of every wire type at every level
    let mut c1 = c0.clone();
    // deepest / last messages first, so that earlier insertions do not shift the paths still to come
    for path in msg_paths(&c0).into_iter().rev() {
        let fl = fillers(path.len());
        let k = kids_mut(&mut c1, &path);
        for (i, (_, f)) in fl.into_iter().enumerate() {
            let at = (i * 2).min(k.len());
            k.insert(at, f);
        }
    }
    let c2 = PReq { series: vec![PSeries { labels: vec![("__name__".into(), "m".into())], samples: vec![PSample::new(1.0, 1)] }] }.nodes();
    vec![("typical".into(), c0), ("with-unknown-fields".into(), c1), ("minimal".into(), c2)]
}

fn rw_mutations(e: &mut Emit, thorough: bool) {
    for (name, nodes) in rw_corpus() {
        // quick: the 256-value substitution neighbourhood for the typical and the minimal request only
        let substitute = thorough || name != "with-unknown-fields";
        pb_mutations(&nodes, substitute, &mut |mk| e.emit(&|| Case::RwPayload { payload: Hex(mk()) }));
    }
    // label names that collide with the fixed columns, duplicate labels, empty names / values
    for special in ["timestamp", "metric_name", "value_f64", "value_i64", "value_u64", "__name__", "host", ""] {
        for second_series in [false, true] {
            e.emit(&|| {
                let mut r = corpus_req();
                r.series[0].labels.push((special.to_string(), "x".to_string()));
                if second_series {
                    r.series[1].labels.insert(0, (special.to_string(), "".to_string()));
                }
                Case::RwPayload { payload: Hex(pb::encode(&r.nodes())) }
            });
        }
    }
    // the snappy layer of the typical request
    let canon = pb::encode(&corpus_req().nodes());
    let z = snap::raw::Encoder::new().compress_vec(&canon).expect("snappy");
    e.emit(&|| Case::RwBody { body: Hex(canon.clone()) }); // not compressed at all
    for l in 0..z.len() {
        e.emit(&|| Case::RwBody { body: Hex(z[..l].to_vec()) });
    }
    for off in 0..z.len() {
        for v in 0..=255u8 {
            e.emit(&|| {
                let mut b = z.clone();
                b[off] = v;
                Case::RwBody { body: Hex(b) }
            });
        }
    }
    // the snappy header (declared uncompressed length) replaced
    let hdr_len = pb::varint(canon.len() as u64).len();
    for raw in pb::replacements(canon.len() as u64) {
        e.emit(&|| {
            let mut b = raw.clone();
            b.extend_from_slice(&z[hdr_len..]);
            Case::RwBody { body: Hex(b) }
        });
    }
}

// ------------------------------------------------------------------ OTLP

fn sval(s: &str) -> Option<AnyValue> {
    Some(AnyValue { value: Some(any_value::Value::StringValue(s.to_string())) })
}
fn kv(k: &str, v: &str) -> KeyValue {
    KeyValue { key: k.to_string(), value: sval(v) }
}

pub fn otlp_timestamps() -> Vec<u64> {
    vec![0, 1, 1_700_000_000_000_000_000, i64::MAX as u64, 1u64 << 63, u64::MAX]
}

fn otlp_one(name: &str, data: Data) -> ExportMetricsServiceRequest {
    ExportMetricsServiceRequest {
        resource_metrics: vec![ResourceMetrics {
            resource: Some(Resource { attributes: vec![kv("r", "R0")], dropped_attributes_count: 0 }),
            scope_metrics: vec![ScopeMetrics { scope: None, metrics: vec![Metric { name: name.into(), data: Some(data), ..Default::default() }], schema_url: String::new() }],
            schema_url: String::new(),
        }],
    }
}

fn ocase(r: ExportMetricsServiceRequest) -> Case {
    Case::Otlp { req: Hex(r.encode_to_vec()) }
}

/// attrs option 0..4 for point number `c`
fn point_attrs(opt: usize, c: usize) -> Vec<KeyValue> {
    let mut v = Vec::new();
    if opt & 1 != 0 {
        v.push(kv("p", &format!("P{c}")));
    }
    if opt & 2 != 0 {
        v.push(kv("k", &format!("PK{c}")));
    }
    v
}

fn resource_opt(opt: usize, i: usize) -> Option<Resource> {
    match opt {
        0 => None,
        1 => Some(Resource::default()),
        2 => Some(Resource { attributes: vec![kv("r", &format!("R{i}"))], dropped_attributes_count: 0 }),
        _ => Some(Resource { attributes: vec![kv("r", &format!("R{i}")), kv("k", &format!("RK{i}"))], dropped_attributes_count: 0 }),
    }
}

/// metric of `kind` (0 gauge, 1 sum, 2 histogram, 3 exp-histogram, 4 summary, 5 no data) whose points carry
/// the attribute options `pts`; `c` is the running point counter of the request (unique timestamps / values)
fn metric_opt(name: &str, kind: usize, pts: &[usize], c: &mut usize) -> Metric {
    let t0 = 1_700_000_000_000_000_000u64;
    let number = |c: &mut usize, o: usize| {
        let n = *c;
        *c += 1;
        NumberDataPoint {
            attributes: point_attrs(o, n),
            time_unix_nano: t0 + n as u64,
            value: Some(if n % 2 == 0 { number_data_point::Value::AsDouble(0.5 + n as f64) } else { number_data_point::Value::AsInt(100 + n as i64) }),
            ..Default::default()
        }
    };
    let data = match kind {
        0 => Some(Data::Gauge(Gauge { data_points: pts.iter().map(|&o| number(c, o)).collect() })),
        1 => Some(Data::Sum(Sum { data_points: pts.iter().map(|&o| number(c, o)).collect(), aggregation_temporality: 2, is_monotonic: true })),
        2 => Some(Data::Histogram(Histogram {
            data_points: pts
                .iter()
                .map(|&o| {
                    let n = *c;
                    *c += 1;
                    HistogramDataPoint {
                        attributes: point_attrs(o, n),
                        time_unix_nano: t0 + n as u64,
                        count: 3,
                        sum: Some(10.5 + n as f64),
                        bucket_counts: vec![1, 2],
                        explicit_bounds: vec![1.0],
                        ..Default::default()
                    }
                })
                .collect(),
            aggregation_temporality: 2,
        })),
        3 => Some(Data::ExponentialHistogram(ExponentialHistogram {
            data_points: pts
                .iter()
                .map(|&o| {
                    let n = *c;
                    *c += 1;
                    ExponentialHistogramDataPoint { attributes: point_attrs(o, n), time_unix_nano: t0 + n as u64, count: 6, sum: Some(30.5 + n as f64), ..Default::default() }
                })
                .collect(),
            aggregation_temporality: 2,
        })),
        4 => Some(Data::Summary(Summary {
            data_points: pts
                .iter()
                .map(|&o| {
                    let n = *c;
                    *c += 1;
                    SummaryDataPoint {
                        attributes: point_attrs(o, n),
                        time_unix_nano: t0 + n as u64,
                        count: 4,
                        sum: 20.25 + n as f64,
                        quantile_values: vec![ValueAtQuantile { quantile: 0.5, value: 1.0 }],
                        ..Default::default()
                    }
                })
                .collect(),
        })),
        _ => None,
    };
    Metric { name: name.to_string(), data, ..Default::default() }
}

/// all (kind, point attribute options) combinations with at most `maxp` points
fn metric_shapes(maxp: usize) -> Vec<(usize, Vec<usize>)> {
    let mut v = Vec::new();
    for kind in 0..5 {
        v.push((kind, vec![]));
        for a in 0..4 {
            v.push((kind, vec![a]));
        }
        if maxp >= 2 {
            for a in 0..4 {
                for b in 0..4 {
                    v.push((kind, vec![a, b]));
                }
            }
        }
    }
    v.push((5, vec![]));
    v
}

fn otlp_fidelity(e: &mut Emit, thorough: bool) {
    // A: values and timestamps
    let mut nums: Vec<Option<number_data_point::Value>> = values().into_iter().map(|v| Some(number_data_point::Value::AsDouble(v))).collect();
    for i in [0i64, 1, -1, 1 << 53, (1 << 53) + 1, -((1 << 53) + 1), i64::MAX, i64::MIN] {
        nums.push(Some(number_data_point::Value::AsInt(i)));
    }
    nums.push(None);
    for kind in 0..2 {
        for v in &nums {
            for &t in &otlp_timestamps() {
                e.emit(&|| {
                    let p = NumberDataPoint { attributes: vec![kv("p", "P0")], time_unix_nano: t, value: v.clone(), ..Default::default() };
                    let d = if kind == 0 {
                        Data::Gauge(Gauge { data_points: vec![p] })
                    } else {
                        Data::Sum(Sum { data_points: vec![p], aggregation_temporality: 2, is_monotonic: false })
                    };
                    ocase(otlp_one("m", d))
                });
            }
        }
    }
    for sum in [None, Some(0.5), Some(9223372036854775808.0), Some(f64::NAN), Some(-1.0)] {
        for count in [0u64, 5, (1 << 53) + 1, u64::MAX] {
            e.emit(&|| {
                let p = HistogramDataPoint { time_unix_nano: 7, count, sum, ..Default::default() };
                ocase(otlp_one("h", Data::Histogram(Histogram { data_points: vec![p], aggregation_temporality: 1 })))
            });
            e.emit(&|| {
                let p = ExponentialHistogramDataPoint { time_unix_nano: 7, count, sum, ..Default::default() };
                ocase(otlp_one("eh", Data::ExponentialHistogram(ExponentialHistogram { data_points: vec![p], aggregation_temporality: 1 })))
            });
        }
    }
    for v in values() {
        for count in [0u64, 5] {
            e.emit(&|| {
                let p = SummaryDataPoint { time_unix_nano: 7, count, sum: v, ..Default::default() };
                ocase(otlp_one("s", Data::Summary(Summary { data_points: vec![p] })))
            });
        }
    }
    // attribute values that are not strings, or missing
    e.emit(&|| {
        let attrs = vec![
            KeyValue { key: "i".into(), value: Some(AnyValue { value: Some(any_value::Value::IntValue(-7)) }) },
            KeyValue { key: "b".into(), value: Some(AnyValue { value: Some(any_value::Value::BoolValue(true)) }) },
            KeyValue { key: "d".into(), value: Some(AnyValue { value: Some(any_value::Value::DoubleValue(0.25)) }) },
            KeyValue { key: "y".into(), value: Some(AnyValue { value: Some(any_value::Value::BytesValue(vec![0, 255])) }) },
            KeyValue { key: "n".into(), value: None },
            KeyValue { key: "e".into(), value: Some(AnyValue { value: None }) },
        ];
        let p = NumberDataPoint { attributes: attrs, time_unix_nano: 9, value: Some(number_data_point::Value::AsDouble(1.25)), ..Default::default() };
        ocase(otlp_one("typed-attrs", Data::Gauge(Gauge { data_points: vec![p] })))
    });

    // B: structure
    let build = |res: &[(usize, Vec<(usize, Vec<usize>)>, bool)]| -> ExportMetricsServiceRequest {
        let mut c = 0usize;
        let mut rms = Vec::new();
        for (i, (ropt, metrics, split_scopes)) in res.iter().enumerate() {
            let ms: Vec<Metric> = metrics.iter().enumerate().map(|(j, (kind, pts))| metric_opt(&format!("m{i}{j}"), *kind, pts, &mut c)).collect();
            let scopes = if *split_scopes {
                ms.into_iter().map(|m| ScopeMetrics { scope: None, metrics: vec![m], schema_url: String::new() }).collect()
            } else {
                vec![ScopeMetrics { scope: None, metrics: ms, schema_url: String::new() }]
            };
            rms.push(ResourceMetrics { resource: resource_opt(*ropt, i), scope_metrics: scopes, schema_url: String::new() });
        }
        ExportMetricsServiceRequest { resource_metrics: rms }
    };
    let s2 = metric_shapes(2);
    let s1 = metric_shapes(1);
    for r in 0..4 {
        for m in &s2 {
            e.emit(&|| ocase(build(&[(r, vec![m.clone()], false)])));
        }
    }
    let pair = if thorough { &s2 } else { &s1 };
    for r in 0..4 {
        for a in pair {
            for b in pair {
                for split in [false, true] {
                    e.emit(&|| ocase(build(&[(r, vec![a.clone(), b.clone()], split)])));
                }
            }
        }
    }
    // quick: resources without attributes / with both attributes only
    let ropts: &[usize] = if thorough { &[0, 1, 2, 3] } else { &[0, 3] };
    for &r0 in ropts {
        for a in pair {
            for &r1 in ropts {
                for b in pair {
                    e.emit(&|| ocase(build(&[(r0, vec![a.clone()], false), (r1, vec![b.clone()], false)])));
                }
            }
        }
    }    if thorough {
        otlp_two_by_two(e);
    }
}

/// thorough: two resources with two metrics each (gauge / histogram, at most one point, attributes none or both)
fn otlp_two_by_two(e: &mut Emit) {
    let shapes: Vec<(usize, Vec<usize>)> = vec![(0, vec![]), (0, vec![0]), (0, vec![3]), (2, vec![]), (2, vec![0]), (2, vec![3])];
    let mut res_opts: Vec<(usize, Vec<(usize, Vec<usize>)>)> = Vec::new();
    for r in [0usize, 3] {
        for a in &shapes {
            for b in &shapes {
                res_opts.push((r, vec![a.clone(), b.clone()]));
            }
        }
    }
    for x in &res_opts {
        for y in &res_opts {
            e.emit(&|| {
                let mut c = 0usize;
                let rms = [x, y]
                    .iter()
                    .enumerate()
                    .map(|(i, (ropt, metrics))| ResourceMetrics {
                        resource: resource_opt(*ropt, i),
                        scope_metrics: vec![ScopeMetrics {
                            scope: None,
                            metrics: metrics.iter().enumerate().map(|(j, (kind, pts))| metric_opt(&format!("m{i}{j}"), *kind, pts, &mut c)).collect(),
                            schema_url: String::new(),
                        }],
                        schema_url: String::new(),
                    })
                    .collect();
                ocase(ExportMetricsServiceRequest { resource_metrics: rms })
            });
        }
    }
}

pub fn otlp_corpus() -> ExportMetricsServiceRequest {
    let nested = AnyValue {
        value: Some(any_value::Value::ArrayValue(ArrayValue {
            values: vec![
                AnyValue { value: Some(any_value::Value::IntValue(3)) },
                AnyValue { value: Some(any_value::Value::KvlistValue(KeyValueList { values: vec![kv("in", "ner")] })) },
            ],
        })),
    };
    let mut c = 0usize;
    let mut gauge = metric_opt("g", 0, &[3, 1], &mut c);
    if let Some(Data::Gauge(g)) = &mut gauge.data {
        g.data_points[0].exemplars = vec![Exemplar {
            filtered_attributes: vec![kv("x", "y")],
            time_unix_nano: 5,
            span_id: vec![1; 8],
            trace_id: vec![2; 16],
            value: Some(exemplar::Value::AsDouble(1.5)),
        }];
        g.data_points[0].attributes.push(KeyValue { key: "nested".into(), value: Some(nested) });
        g.data_points[0].start_time_unix_nano = 1;
        g.data_points[0].flags = 1;
    }
    gauge.description = "a gauge".into();
    gauge.unit = "1".into();
    ExportMetricsServiceRequest {
        resource_metrics: vec![
            ResourceMetrics {
                resource: resource_opt(3, 0),
                scope_metrics: vec![ScopeMetrics { scope: None, metrics: vec![gauge, metric_opt("s", 1, &[2], &mut c), metric_opt("h", 2, &[1], &mut c)], schema_url: "u".into() }],
                schema_url: "v".into(),
            },
            ResourceMetrics {
                resource: None,
                scope_metrics: vec![ScopeMetrics { scope: None, metrics: vec![metric_opt("eh", 3, &[0], &mut c), metric_opt("q", 4, &[3], &mut c), metric_opt("none", 5, &[], &mut c)], schema_url: String::new() }],
                schema_url: String::new(),
            },
        ],
    }
}

/// a compact export: one resource, a gauge point with an attribute and a histogram point
pub fn otlp_small_corpus() -> ExportMetricsServiceRequest {
    let mut c = 0usize;
    ExportMetricsServiceRequest {
        resource_metrics: vec![ResourceMetrics {
            resource: resource_opt(2, 0),
            scope_metrics: vec![ScopeMetrics { scope: None, metrics: vec![metric_opt("g", 0, &[1], &mut c), metric_opt("h", 2, &[0], &mut c)], schema_url: String::new() }],
            schema_url: String::new(),
        }],
    }
}

fn otlp_bytes(e: &mut Emit, thorough: bool) {
    e.emit(&|| Case::OtlpBytes { bytes: Hex(vec![]) });
    for a in 0..=255u8 {
        e.emit(&|| Case::OtlpBytes { bytes: Hex(vec![a]) });
    }
    for a in 0..=255u8 {
        for b in 0..=255u8 {
            e.emit(&|| Case::OtlpBytes { bytes: Hex(vec![a, b]) });
        }
    }
    // attribute keys that collide with the fixed columns, on the resource and on a point
    for special in ["timestamp", "metric_name", "value_f64", "value_i64", "value_u64", ""] {
        for on_point in [false, true] {
            e.emit(&|| {
                let mut r = otlp_small_corpus();
                if on_point {
                    if let Some(Data::Gauge(g)) = &mut r.resource_metrics[0].scope_metrics[0].metrics[0].data {
                        g.data_points[0].attributes.push(kv(special, "x"));
                    }
                } else if let Some(res) = &mut r.resource_metrics[0].resource {
                    res.attributes.push(kv(special, "x"));
                }
                Case::OtlpBytes { bytes: Hex(r.encode_to_vec()) }
            });
        }
    }
    // quick: the 256-value substitution neighbourhood only for the compact export
    for (req, substitute) in [(otlp_small_corpus(), true), (otlp_corpus(), thorough)] {
        let canon = req.encode_to_vec();
        let nodes = pb::parse(&canon, 0).expect("corpus parses");
        assert_eq!(pb::encode(&nodes), canon, "harness protobuf reader/writer round trip");
        e.emit(&|| Case::OtlpBytes { bytes: Hex(canon.clone()) });
        pb_mutations(&nodes, substitute, &mut |mk| e.emit(&|| Case::OtlpBytes { bytes: Hex(mk()) }));
    }
}

// ------------------------------------------------------------------ Flight

pub fn flight_batch(rows: usize) -> RecordBatch {
    let schema = Arc::new(Schema::new(vec![
        Field::new("timestamp", DataType::Timestamp(TimeUnit::Nanosecond, Some("UTC".into())), false),
        Field::new("metric_name", DataType::Utf8, false),
        Field::new("value_f64", DataType::Float64, true),
        Field::new("host", DataType::Utf8, true),
    ]));
    let ts: Vec<i64> = (0..rows as i64).map(|i| 1_700_000_000_000_000_000 + i).collect();
    let names: Vec<&str> = (0..rows).map(|_| "cpu").collect();
    let vals: Vec<Option<f64>> = (0..rows).map(|i| if i % 2 == 0 { Some(0.5 + i as f64) } else { None }).collect();
    let hosts: Vec<Option<String>> = (0..rows).map(|i| if i % 2 == 1 { Some(format!("h{i}")) } else { None }).collect();
    let cols: Vec<ArrayRef> = vec![
        Arc::new(TimestampNanosecondArray::from(ts).with_timezone("UTC")),
        Arc::new(StringArray::from(names)),
        Arc::new(Float64Array::from(vals)),
        Arc::new(StringArray::from(hosts)),
    ];
    RecordBatch::try_new(schema, cols).unwrap()
}

fn other_batch() -> RecordBatch {
    let schema = Arc::new(Schema::new(vec![Field::new("a", DataType::Int64, false), Field::new("b", DataType::Utf8, true)]));
    let cols: Vec<ArrayRef> = vec![Arc::new(Int64Array::from(vec![1, 2, 3])), Arc::new(StringArray::from(vec![Some("x"), None, Some("zz")]))];
    RecordBatch::try_new(schema, cols).unwrap()
}

type Frame = (Hex, Hex);

fn frames_of(b: &RecordBatch) -> Vec<Frame> {
    arrow_flight::utils::batches_to_flight_data(b.schema().as_ref(), vec![b.clone()])
        .expect("encode flight data")
        .into_iter()
        .map(|f| (Hex(f.data_header.to_vec()), Hex(f.data_body.to_vec())))
        .collect()
}

fn word_values32(v: u32) -> Vec<u32> {
    let mut o = vec![0, 1, v.wrapping_sub(1), v.wrapping_add(1), v.wrapping_add(4), v.wrapping_add(8), 0x7fff_ffff, 0x8000_0000, 0xffff_fff8, 0xffff_ffff];
    o.retain(|x| *x != v);
    o.dedup();
    o
}
fn word_values64(v: u64) -> Vec<u64> {
    let mut o = vec![0, 1, v.wrapping_sub(1), v.wrapping_add(1), v.wrapping_add(8), 1 << 31, 1 << 32, (1u64 << 63) - 1, 1 << 63, u64::MAX, u64::MAX - 7];
    o.retain(|x| *x != v);
    o.dedup();
    o
}

fn flight(e: &mut Emit) {
    let good = frames_of(&flight_batch(2));
    assert_eq!(good.len(), 2, "schema frame + batch frame");
    let (s, b) = (good[0].clone(), good[1].clone());
    let b0 = frames_of(&flight_batch(0))[1].clone();
    let other = frames_of(&other_batch());
    let (s2, b2) = (other[0].clone(), other[1].clone());
    let empty: Frame = (Hex(vec![]), Hex(vec![]));
    // frame sequences
    let alphabet: Vec<(&str, Frame)> = vec![("S", s.clone()), ("B", b.clone()), ("E", empty), ("B0", b0), ("S2", s2), ("B2", b2)];
    let mut seqs: Vec<Vec<usize>> = vec![vec![]];
    let mut layer: Vec<Vec<usize>> = vec![vec![]];
    for _ in 0..3 {
        let mut next = Vec::new();
        for q in &layer {
            for a in 0..alphabet.len() {
                let mut n = q.clone();
                n.push(a);
                next.push(n);
            }
        }
        seqs.extend(next.iter().cloned());
        layer = next;
    }
    for q in &seqs {
        let names: Vec<&str> = q.iter().map(|&i| alphabet[i].0).collect();
        let expect_rows = match names.as_slice() {
            ["S", "B"] => Some(2),
            ["S", "B", "B"] => Some(4),
            _ => None,
        };
        e.emit(&|| Case::Flight { frames: q.iter().map(|&i| alphabet[i].1.clone()).collect(), how: format!("frame sequence {names:?}"), expect_rows });
    }
    // per-frame mutations of [S, B]
    for which in 0..2 {
        for part in 0..2 {
            let orig: Vec<u8> = if part == 0 { good[which].0 .0.clone() } else { good[which].1 .0.clone() };
            let pname = if part == 0 { "data_header" } else { "data_body" };
            let fname = if which == 0 { "schema frame" } else { "batch frame" };
            let put = |bytes: Vec<u8>, how: String| {
                let mut fr = good.clone();
                if part == 0 {
                    fr[which].0 = Hex(bytes);
                } else {
                    fr[which].1 = Hex(bytes);
                }
                Case::Flight { frames: fr, how, expect_rows: None }
            };
            for l in 0..orig.len() {
                e.emit(&|| put(orig[..l].to_vec(), format!("{fname} {pname} cut to {l} bytes")));
            }
            for off in 0..orig.len() {
                for v in 0..=255u8 {
                    e.emit(&|| {
                        let mut x = orig.clone();
                        x[off] = v;
                        put(x, format!("{fname} {pname} byte {off} := {v:#04x}"))
                    });
                }
            }
            let mut off = 0;
            while off + 4 <= orig.len() {
                let cur = u32::from_le_bytes(orig[off..off + 4].try_into().unwrap());
                for v in word_values32(cur) {
                    e.emit(&|| {
                        let mut x = orig.clone();
                        x[off..off + 4].copy_from_slice(&v.to_le_bytes());
                        put(x, format!("{fname} {pname} u32 at {off} := {v:#x} (was {cur:#x})"))
                    });
                }
                if off + 8 <= orig.len() {
                    let cur = u64::from_le_bytes(orig[off..off + 8].try_into().unwrap());
                    for v in word_values64(cur) {
                        e.emit(&|| {
                            let mut x = orig.clone();
                            x[off..off + 8].copy_from_slice(&v.to_le_bytes());
                            put(x, format!("{fname} {pname} u64 at {off} := {v:#x} (was {cur:#x})"))
                        });
                    }
                }
                off += 4;
            }
        }
    }
    // the protobuf layer (what tonic's codec decodes): FlightData messages
    let enc: Vec<Vec<u8>> = good
        .iter()
        .map(|(h, bd)| {
            arrow_flight::FlightData { flight_descriptor: None, data_header: h.0.clone().into(), app_metadata: Default::default(), data_body: bd.0.clone().into() }.encode_to_vec()
        })
        .collect();
    e.emit(&|| Case::FlightBytes { frames: enc.iter().map(|x| Hex(x.clone())).collect() });
    e.emit(&|| Case::FlightBytes { frames: vec![Hex(vec![])] });
    for a in 0..=255u8 {
        e.emit(&|| Case::FlightBytes { frames: vec![Hex(vec![a])] });
    }
    for a in 0..=255u8 {
        for b in 0..=255u8 {
            e.emit(&|| Case::FlightBytes { frames: vec![Hex(vec![a, b])] });
        }
    }
    for which in 0..2 {
        // top level only: header and body are opaque byte fields at this layer
        let nodes: Vec<Node> = pb::parse(&enc[which], 100).expect("FlightData parses");
        assert_eq!(pb::encode(&nodes), enc[which]);
        let canon = enc[which].clone();
        let mut variants: Vec<Vec<u8>> = Vec::new();
        for l in 0..canon.len() {
            variants.push(canon[..l].to_vec());
        }
        for (si, st) in pb::sites(&nodes).iter().enumerate() {
            for raw in pb::replacements(st.value) {
                variants.push(pb::splice(&canon, st, &raw));
                variants.push(pb::encode_with(&nodes, si, &raw));
            }
        }
        for v in variants {
            e.emit(&|| {
                let mut fr: Vec<Hex> = enc.iter().map(|x| Hex(x.clone())).collect();
                fr[which] = Hex(v.clone());
                Case::FlightBytes { frames: fr }
            });
        }
    }
}
