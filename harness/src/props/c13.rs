//! C13 — shard metadata changes are fenced by generation (engine A multi-node; engine B for the router).

use super::common::*;
use crate::engine::meta::GatedMeta;
use crate::engine::report::Report;
use crate::engine::sched::*;
use crate::engine::store::{GatedStore, StoreLog};
use async_trait::async_trait;
use cardinalsin::metadata::{LocalMetadataClient, MetadataClient};
use cardinalsin::sharding::{ShardMetadata, ShardRouter, ShardState};
use object_store::ObjectStore;
use serde_json::json;
use std::sync::{Arc, Mutex};
use std::time::Duration;

const SHARD: &str = "s1";
const SHARD_OBJ: &str = "metadata%2F/shards%2F/s1.json";

#[derive(Debug, Clone, serde::Serialize, serde::Deserialize)]
pub struct Program {
    pub name: String,
    /// generation of the shard before the race (0 = absent)
    pub initial_gen: u64,
    /// per client: list of (expected generation, state tag)
    pub clients: Vec<Vec<(u64, u8)>>,
    /// "object-store" or "in-memory"
    pub backend: String,
}

fn state_of(tag: u8) -> ShardState {
    match tag {
        0 => ShardState::Active,
        1 => ShardState::Splitting { new_shards: vec!["x".into(), "y".into()] },
        _ => ShardState::PendingDeletion { delete_after: 42 },
    }
}

fn meta(tag: u8, writer: &str) -> ShardMetadata {
    ShardMetadata {
        shard_id: SHARD.into(),
        generation: 777, // must be ignored: the store assigns expected+1
        key_range: (vec![0], vec![255]),
        replicas: vec![cardinalsin::sharding::ReplicaInfo { replica_id: writer.into(), node_id: writer.into(), is_leader: true }],
        state: state_of(tag),
        min_time: 0,
        max_time: 0,
    }
}

#[derive(Debug, Clone)]
struct OpRec {
    client: usize,
    idx: usize,
    expected: u64,
    ok: Option<bool>,
    err: Option<String>,
}

pub struct C13Scenario {
    prog: Program,
    mem: Arc<dyn ObjectStore>,
    local: Arc<LocalMetadataClient>,
    log: Arc<StoreLog>,
    stores: Vec<Arc<GatedStore>>,
    metas: Vec<Arc<GatedMeta>>,
    recs: Arc<Mutex<Vec<OpRec>>>,
}

impl C13Scenario {
    pub fn new(prog: Program) -> Self {
        Self {
            prog,
            mem: new_mem(),
            local: Arc::new(LocalMetadataClient::new()),
            log: StoreLog::new(),
            stores: Vec::new(),
            metas: Vec::new(),
            recs: Arc::new(Mutex::new(Vec::new())),
        }
    }
}

#[async_trait(?Send)]
impl Scenario for C13Scenario {
    async fn setup(&mut self, ctl: &Ctl) {
        let os = self.prog.backend == "object-store";
        {
            let c: Arc<dyn MetadataClient> = if os { Arc::new(os_client(self.mem.clone())) } else { self.local.clone() };
            for g in 0..self.prog.initial_gen {
                c.update_shard_metadata(SHARD, &meta(0, "init"), g).await.expect("initial shard");
            }
        }
        for (ci, ops) in self.prog.clients.iter().enumerate() {
            let node = format!("N{ci}");
            let client: Arc<dyn MetadataClient> = if os {
                let gs = GatedStore::new(self.mem.clone(), &node, ctl, &self.log);
                self.stores.push(gs.clone());
                Arc::new(os_client(gs as Arc<dyn ObjectStore>))
            } else {
                let gm = GatedMeta::new(self.local.clone(), &node, ctl);
                self.metas.push(gm.clone());
                gm
            };
            let ops = ops.clone();
            let recs = self.recs.clone();
            let node2 = node.clone();
            ctl.spawn(&node, &node, async move {
                for (idx, (expected, tag)) in ops.into_iter().enumerate() {
                    let slot = {
                        let mut r = recs.lock().unwrap();
                        r.push(OpRec { client: ci, idx, expected, ok: None, err: None });
                        r.len() - 1
                    };
                    let res = client.update_shard_metadata(SHARD, &meta(tag, &format!("{node2}.{idx}")), expected).await;
                    let mut r = recs.lock().unwrap();
                    r[slot].ok = Some(res.is_ok());
                    r[slot].err = res.err().map(|e| format!("{e:?}"));
                }
            });
        }
    }

    fn fingerprint(&self, _ctl: &Ctl) -> Option<u64> {
        if self.prog.backend != "object-store" {
            return None;
        }
        let img = now_or_never(store_image(&self.mem));
        let recs: Vec<(usize, usize, Option<bool>)> = self.recs.lock().unwrap().iter().map(|r| (r.client, r.idx, r.ok)).collect();
        let nodes: Vec<u64> = self.stores.iter().map(|s| s.resp()).collect();
        // the version history matters to the oracle: (generation, writer) of every version written
        let versions: Vec<u64> = self.log.versions(SHARD_OBJ).iter().map(|e| hash_bytes(e.payload.as_deref().unwrap_or_default())).collect();
        Some(hash_of(&(img, recs, nodes, versions)))
    }

    async fn finish(&mut self, ctl: &Ctl) -> Finish {
        let mut f = Finish::default();
        let unfinished = ctl.unfinished_actors();
        if !unfinished.is_empty() {
            f.violations.push(Violation { sig: "C13:stuck".into(), msg: format!("clients never finished: {unfinished:?}") });
            return f;
        }
        for (a, m) in ctl.panics() {
            f.violations.push(Violation { sig: "C13:panic".into(), msg: format!("client {a} panicked: {m}") });
        }
        let recs = self.recs.lock().unwrap().clone();
        let oks: Vec<&OpRec> = recs.iter().filter(|r| r.ok == Some(true)).collect();
        let g0 = self.prog.initial_gen;
        let desc: Vec<String> = recs
            .iter()
            .map(|r| format!("N{}.{} expected={} -> {}", r.client, r.idx, r.expected, if r.ok == Some(true) { "Ok".into() } else { r.err.clone().unwrap_or_default() }))
            .collect();
        // among updates based on the same generation at most one succeeds
        let mut by_exp = std::collections::BTreeMap::<u64, usize>::new();
        for r in &oks {
            *by_exp.entry(r.expected).or_default() += 1;
        }
        for (e, n) in &by_exp {
            if *n > 1 {
                f.violations.push(Violation {
                    sig: "C13:two-winners-same-generation".into(),
                    msg: format!("{n} updates based on generation {e} all succeeded (backend {}): {desc:?}", self.prog.backend),
                });
            }
        }
        // successful updates raise the generation by exactly one each, starting from the initial one
        let mut exps: Vec<u64> = oks.iter().map(|r| r.expected).collect();
        exps.sort();
        let want: Vec<u64> = (g0..g0 + oks.len() as u64).collect();
        if exps != want {
            f.violations.push(Violation {
                sig: "C13:generation-chain-broken".into(),
                msg: format!("successful updates were based on generations {exps:?}, expected the chain {want:?}: {desc:?}"),
            });
        }
        // rejected updates are rejected as stale / not found / retries exhausted
        for r in recs.iter().filter(|r| r.ok == Some(false)) {
            let e = r.err.clone().unwrap_or_default();
            if !(e.contains("StaleGeneration") || e.contains("ShardNotFound") || e.contains("TooManyRetries")) {
                f.violations.push(Violation { sig: "C13:unexpected-error".into(), msg: format!("update failed with {e}: {desc:?}") });
            }
        }
        // stored state
        let fresh: Arc<dyn MetadataClient> = if self.prog.backend == "object-store" { Arc::new(os_client(self.mem.clone())) } else { self.local.clone() };
        let stored = fresh.get_shard_metadata(SHARD).await.ok().flatten();
        let stored_gen = stored.as_ref().map(|m| m.generation).unwrap_or(0);
        if stored_gen != g0 + oks.len() as u64 {
            f.violations.push(Violation {
                sig: "C13:stored-generation".into(),
                msg: format!("stored generation {stored_gen} != initial {g0} + {} successful updates: {desc:?}", oks.len()),
            });
        }
        // the stored content is the one written by the update based on generation stored_gen-1
        if let (Some(m), Some(last)) = (&stored, oks.iter().find(|r| r.expected + 1 == stored_gen)) {
            let w = m.replicas.first().map(|r| r.replica_id.clone()).unwrap_or_default();
            if w != format!("N{}.{}", last.client, last.idx) {
                f.violations.push(Violation {
                    sig: "C13:newer-overwritten".into(),
                    msg: format!("stored metadata (generation {stored_gen}) was written by {w}, but the update based on generation {} is N{}.{}: {desc:?}", last.expected, last.client, last.idx),
                });
            }
        }
        if self.prog.backend == "object-store" {
            // every version ever written: generations g0+1, g0+2, ... without gap or repeat
            let versions = self.log.versions(SHARD_OBJ);
            let gens: Vec<u64> = versions
                .iter()
                .map(|v| serde_json::from_slice::<ShardMetadata>(v.payload.as_deref().unwrap_or_default()).map(|m| m.generation).unwrap_or(u64::MAX))
                .collect();
            let wantv: Vec<u64> = (g0 + 1..=g0 + versions.len() as u64).collect();
            if gens != wantv {
                f.violations.push(Violation {
                    sig: "C13:version-history".into(),
                    msg: format!("versions of the shard object carry generations {gens:?}, expected {wantv:?}: {desc:?}"),
                });
            }
            if versions.len() != oks.len() {
                f.violations.push(Violation {
                    sig: "C13:versions-vs-oks".into(),
                    msg: format!("{} versions written but {} updates reported success: {desc:?}", versions.len(), oks.len()),
                });
            }
            if self.log.snapshot().iter().any(|e| e.kind == "PUT" && !e.ok) {
                f.flags.push("cas_conflict".into());
            }
        }
        if recs.iter().any(|r| r.err.as_deref().map(|e| e.contains("StaleGeneration")).unwrap_or(false)) {
            f.flags.push("stale_rejected".into());
        }
        let winners: Vec<String> = oks.iter().map(|r| format!("N{}.{}", r.client, r.idx)).collect();
        f.flags.push(format!("winners:{}", winners.join(",")));
        f.outcome = format!("{desc:?}");
        f
    }
}

pub fn programs(tier: &str) -> Vec<Program> {
    let mut v = Vec::new();
    let two: Vec<(&str, u64, Vec<Vec<(u64, u8)>>)> = vec![
        ("create-create", 0, vec![vec![(0, 0)], vec![(0, 1)]]),
        ("create+update-vs-create", 0, vec![vec![(0, 0), (1, 1)], vec![(0, 0)]]),
        ("create-vs-update-of-gen1", 0, vec![vec![(0, 0)], vec![(1, 2)]]),
        ("same-base", 2, vec![vec![(2, 1)], vec![(2, 2)]]),
        ("chain-vs-same-base", 2, vec![vec![(2, 1), (3, 0)], vec![(2, 2)]]),
        ("stale-vs-current", 2, vec![vec![(1, 1)], vec![(2, 2)]]),
        ("current-vs-next", 2, vec![vec![(2, 1)], vec![(3, 2)]]),
        ("two-chains", 2, vec![vec![(2, 1), (3, 2)], vec![(2, 0), (3, 1)]]),
    ];
    for (n, g, c) in &two {
        for b in ["object-store", "in-memory"] {
            v.push(Program { name: format!("{n}/{b}"), initial_gen: *g, clients: c.clone(), backend: b.into() });
        }
    }
    if tier == "thorough" {
        let three: Vec<(&str, u64, Vec<Vec<(u64, u8)>>)> = vec![
            ("3-create", 0, vec![vec![(0, 0)], vec![(0, 1)], vec![(0, 2)]]),
            ("3-create-chains", 0, vec![vec![(0, 0), (1, 1)], vec![(0, 1), (1, 2)], vec![(0, 2), (2, 0)]]),
            ("3-same-base", 2, vec![vec![(2, 0), (3, 1)], vec![(2, 1), (3, 2)], vec![(2, 2), (4, 0)]]),
        ];
        for (n, g, c) in &three {
            for b in ["object-store", "in-memory"] {
                v.push(Program { name: format!("{n}/{b}"), initial_gen: *g, clients: c.clone(), backend: b.into() });
            }
        }
    }
    v
}

/// Generated family: every unordered pair (triple) of client programs of 1..=max_len updates whose expected
/// generations range over {g0-1, g0, g0+1, g0+2}; the state tag is derived from (client, index).
pub fn generated_programs(initial_gen: u64, clients: usize, max_len: usize, backend: &str) -> Vec<Program> {
    let exps: Vec<u64> = (initial_gen.saturating_sub(1)..=initial_gen + 2).collect();
    let mut seqs: Vec<Vec<u64>> = vec![vec![]];
    let mut all: Vec<Vec<u64>> = Vec::new();
    for _ in 0..max_len {
        let mut next = Vec::new();
        for q in &seqs {
            for e in &exps {
                let mut n = q.clone();
                n.push(*e);
                next.push(n);
            }
        }
        all.extend(next.iter().cloned());
        seqs = next;
    }
    let tagged = |ci: usize, q: &Vec<u64>| -> Vec<(u64, u8)> { q.iter().enumerate().map(|(i, e)| (*e, ((ci * 2 + i) % 3) as u8)).collect() };
    let mut v = Vec::new();
    let n = all.len();
    for i in 0..n {
        for j in i..n {
            if clients == 2 {
                v.push(Program { name: format!("gen/g{initial_gen}/{backend}/{i}x{j}"), initial_gen, clients: vec![tagged(0, &all[i]), tagged(1, &all[j])], backend: backend.into() });
            } else {
                for k in j..n {
                    v.push(Program {
                        name: format!("gen/g{initial_gen}/{backend}/{i}x{j}x{k}"),
                        initial_gen,
                        clients: vec![tagged(0, &all[i]), tagged(1, &all[j]), tagged(2, &all[k])],
                        backend: backend.into(),
                    });
                }
            }
        }
    }
    v
}

pub fn factory(prog: Program) -> ScenarioFactory {
    Arc::new(move || Box::new(C13Scenario::new(prog.clone())) as Box<dyn Scenario>)
}

/// Engine B: all sequences of <= depth router updates with generations from {1,2,3}: the cached
/// generation never decreases.
fn router_histories(rep: &mut Report, depth: usize) {
    let gens = [1u64, 2, 3];
    let mut hist_count = 0u64;
    let mut states = std::collections::BTreeSet::new();
    let mut stack: Vec<Vec<u64>> = vec![vec![]];
    while let Some(h) = stack.pop() {
        // replay on a fresh router
        let router = ShardRouter::new(Duration::from_secs(3600));
        let mut maxgen = 0u64;
        for (i, g) in h.iter().enumerate() {
            let mut m = meta(0, &format!("u{i}"));
            m.generation = *g;
            m.key_range = (vec![0u8; 14], vec![255u8; 14]);
            router.update_routing(m);
            maxgen = maxgen.max(*g);
            let key = cardinalsin::sharding::ShardKey::new(1, "cpu", 0);
            let cached = router.get_shard(&key).map(|s| s.generation);
            if cached != Some(maxgen) {
                rep.violation(
                    "C13:router-generation-regressed",
                    &format!("after router updates {:?} the cached generation is {cached:?}, expected {maxgen}", &h[..=i]),
                    json!({"kind": "history", "scenario": "router", "updates": h}),
                );
            }
            states.insert((i, cached));
        }
        hist_count += 1;
        if h.len() < depth {
            for g in gens {
                let mut n = h.clone();
                n.push(g);
                stack.push(n);
            }
        }
    }
    rep.add_u64("router_histories", hist_count);
    rep.add_u64("executions", hist_count);
    rep.add_u64("evaluations", hist_count);
    rep.add_u64("traces_validated_against_impl", hist_count);
    rep.add_u64("states", states.len() as u64);
    rep.add_u64("transitions", hist_count.saturating_sub(1));
}

pub fn run(tier: &str) -> i32 {
    let mut rep = Report::new("C13", tier, "model_checking");
    rep.assume("object-store client: interleavings at object-store-request granularity; in-memory client: interleavings at catalog-call granularity (its update is a synchronous function body: two calls can only overlap on different worker threads, which this single-threaded scheduler does not model)");
    let mut conflict = false;
    let mut stale = false;
    let mut winners = std::collections::BTreeSet::new();
    for prog in programs(tier) {
        let three = prog.clients.len() >= 3;
        let cfg = ExploreConfig {
            bounds: Cost { preempt: if three { 5 } else { 1000 }, ..Cost::ZERO },
            use_cache: prog.backend == "object-store",
            wall_cap: Duration::from_secs(if tier == "thorough" { 600 } else { 60 }),
            ..Default::default()
        };
        let st = explore(factory(prog.clone()), &cfg);
        conflict |= st.flags.contains_key("cas_conflict");
        stale |= st.flags.contains_key("stale_rejected");
        for k in st.flags.keys() {
            if k.starts_with("winners:") {
                winners.insert(format!("{}|{k}", prog.name));
            }
        }
        println!(
            "  C13 {:<44} executions={:<6} states={:<6} pruned={:<6} depth={:<3} outcomes={:<3} {:.1}s{}",
            prog.name, st.executions, st.states, st.pruned, st.max_depth, st.outcomes.len(), st.wall_s, if st.capped { " CAPPED" } else { "" }
        );
        rep.absorb_explore(&prog.name, &serde_json::to_value(&prog).unwrap(), &st, cfg.bounds);
    }
    // generated families
    {
        let thorough = tier == "thorough";
        let mut fams: Vec<(String, Vec<Program>, u32)> = Vec::new();
        for g in [0u64, 2] {
            if thorough {
                fams.push((format!("2 clients x 1..=3 updates, shard at generation {g}, object-store"), generated_programs(g, 2, 3, "object-store"), 1000));
            } else {
                fams.push((format!("2 clients x 1..=2 updates, shard at generation {g}, object-store"), generated_programs(g, 2, 2, "object-store"), 1000));
                fams.push((format!("2 clients x 3 updates each (every 9th pair), shard at generation {g}, object-store"), generated_programs(g, 2, 3, "object-store").into_iter().filter(|p| p.clients[0].len() == 3 && p.clients[1].len() == 3).step_by(9).collect(), 1000));
            }
            fams.push((format!("2 clients x 1..=2 updates, shard at generation {g}, in-memory"), generated_programs(g, 2, 2, "in-memory"), 1000));
            if thorough {
                fams.push((format!("3 clients x 1..=2 updates, shard at generation {g}, object-store"), generated_programs(g, 3, 2, "object-store"), 4));
            } else {
                fams.push((format!("3 clients x 1 update, shard at generation {g}, object-store"), generated_programs(g, 3, 1, "object-store"), 4));
            }
        }
        for (name, progs, pre) in fams {
            let t0 = std::time::Instant::now();
            let bounds = Cost { preempt: pre, ..Cost::ZERO };
            let os = progs.first().map(|p| p.backend == "object-store").unwrap_or(true);
            let stats = explore_many(progs.iter().map(|p| factory(p.clone())).collect(), &|_| ExploreConfig {
                bounds,
                use_cache: os,
                wall_cap: Duration::from_secs(900),
                selftest: 1,
                ..Default::default()
            });
            let (mut ex, mut stt, mut tr, mut outc) = (0u64, 0u64, 0u64, 0u64);
            for (p, st) in progs.iter().zip(stats.iter()) {
                ex += st.executions;
                stt += st.states;
                tr += st.transitions;
                outc += st.outcomes.len() as u64;
                conflict |= st.flags.contains_key("cas_conflict");
                stale |= st.flags.contains_key("stale_rejected");
                rep.absorb_explore_compact(&p.name, &serde_json::to_value(p).unwrap(), st, bounds);
            }
            println!("  C13 generated: {name}: {} programs executions={ex} states={stt} outcomes={outc} {:.1}s", progs.len(), t0.elapsed().as_secs_f64());
            let scen = rep.coverage.entry("scenarios".to_string()).or_insert_with(|| json!([]));
            if let Some(a) = scen.as_array_mut() {
                a.push(json!({"scenario": format!("generated family: {name}"), "programs": progs.len(), "expected_generations": "g0-1 ..= g0+2",
                    "bounds_completed": {"preemptions": if pre >= 1000 { json!("unbounded") } else { json!(pre) }}, "executions": ex, "states": stt, "transitions": tr, "distinct_outcomes_summed": outc}));
            }
        }
    }
    router_histories(&mut rep, if tier == "thorough" { 7 } else { 5 });
    rep.set("rule", "an execution = one complete interleaving of the clients' requests (object-store client: every GET/PUT; in-memory client: every call); distinct = distinct state fingerprints / tree nodes; router part: every sequence of updates up to the depth");
    let d = rep.get_u64("states");
    rep.set("distinct_nontrivial", d);
    rep.set("vacuity", json!({"cas_conflict_seen": conflict, "stale_rejection_seen": stale, "distinct_winner_sets": winners.len()}));
    if !conflict {
        rep.machinery("vacuity guard: no execution contained a conditional-PUT conflict");
    }
    if !stale {
        rep.machinery("vacuity guard: no update was ever rejected as stale");
    }
    if winners.len() < 10 {
        rep.machinery("vacuity guard: too few distinct winner sets");
    }
    cutover_races(&mut rep, tier);
    rep.finish()
}

pub fn replay(v: &serde_json::Value) -> i32 {
    if v["scenario"] == "router" {
        let mut rep = Report::new("C13", "quick", "model_checking");
        router_histories(&mut rep, 0);
        println!("router history {:?}: re-run `./check C13 quick` (histories are enumerated in microseconds)", v["updates"]);
        return 0;
    }
    if !v["params"]["cutover_race"].is_null() {
        let p: CutoverRace = serde_json::from_value(v["params"]["cutover_race"].clone()).expect("cutover_race");
        return super::replay_schedule(cutover_factory(p), v);
    }
    let prog: Program = serde_json::from_value(v["params"].clone()).expect("params");
    super::replay_schedule(factory(prog), v)
}

/// Demonstration (not part of the check): the in-memory client's update is a synchronous
/// check-then-insert; on two real threads two updates based on the same generation can both succeed.
/// `vcheck C13 stress` runs it with free-running OS threads and reports how often that happened.
pub fn stress_local(rounds: usize) -> (usize, usize) {
    use std::sync::Barrier;
    let mut both_ok = 0usize;
    for _ in 0..rounds {
        let c = Arc::new(LocalMetadataClient::new());
        futures::executor::block_on(c.update_shard_metadata(SHARD, &meta(0, "init"), 0)).unwrap();
        let b = Arc::new(Barrier::new(2));
        let hs: Vec<_> = (0..2)
            .map(|i| {
                let c = c.clone();
                let b = b.clone();
                std::thread::spawn(move || {
                    b.wait();
                    futures::executor::block_on(c.update_shard_metadata(SHARD, &meta(1, &format!("t{i}")), 1)).is_ok()
                })
            })
            .collect();
        let r: Vec<bool> = hs.into_iter().map(|h| h.join().unwrap()).collect();
        if r.iter().all(|x| *x) {
            both_ok += 1;
        }
    }
    (rounds, both_ok)
}

// ---------------------------------------------------------------------------------------------------------------------
// C13 (c): the fence as its callers use it. A shard splitter's cut-over (which deactivates the old shard with the
// generation it read) races with another node's correctly fenced update of the same shard (a leader move). Whatever
// the interleaving, a writer that read the document before the other one wrote must lose: if the leader move was
// acknowledged its changes are in the stored document, and if the cut-over was acknowledged the shard is pending
// deletion.
// ---------------------------------------------------------------------------------------------------------------------

const OLD: &str = "old-shard";

#[derive(Debug, Clone, serde::Serialize, serde::Deserialize)]
pub struct CutoverRace {
    pub backend: String,
}

pub struct CutoverScenario {
    p: CutoverRace,
    mem: Arc<dyn ObjectStore>,
    local: Arc<LocalMetadataClient>,
    log: Arc<StoreLog>,
    /// (cut-over result, leader-move result: Some(generation it was based on, ok))
    res: Arc<Mutex<(Option<Result<(), String>>, Option<(u64, Result<(), String>)>)>>,
}

fn old_doc() -> ShardMetadata {
    ShardMetadata {
        shard_id: OLD.into(),
        generation: 0,
        key_range: (vec![0u8; 8], vec![255u8; 8]),
        replicas: vec![cardinalsin::sharding::ReplicaInfo { replica_id: "replica-1".into(), node_id: "node-A".into(), is_leader: true }],
        state: ShardState::Active,
        min_time: 0,
        max_time: 10_000,
    }
}

#[async_trait(?Send)]
impl Scenario for CutoverScenario {
    async fn setup(&mut self, ctl: &Ctl) {
        let os = self.p.backend == "object-store";
        let init: Arc<dyn MetadataClient> = if os { Arc::new(os_client(self.mem.clone())) } else { self.local.clone() };
        init.update_shard_metadata(OLD, &old_doc(), 0).await.expect("old shard");
        init.start_split(OLD, vec!["new-a".into(), "new-b".into()], 5_000i64.to_be_bytes().to_vec()).await.expect("start_split");
        init.update_split_progress(OLD, 1.0, cardinalsin::sharding::SplitPhase::Backfill).await.expect("backfill done");
        let client = |node: &str| -> Arc<dyn MetadataClient> {
            if os {
                let gs = GatedStore::new(self.mem.clone(), node, ctl, &self.log);
                Arc::new(os_client(gs as Arc<dyn ObjectStore>))
            } else {
                GatedMeta::new(self.local.clone(), node, ctl)
            }
        };
        let (ca, cb) = (client("A"), client("B"));
        let data = self.mem.clone();
        let res = self.res.clone();
        ctl.spawn("A", "A", async move {
            let sp = cardinalsin::sharding::ShardSplitter::new(ca, data);
            let r = sp.cutover(OLD).await.map_err(|e| format!("{e:?}"));
            res.lock().unwrap().0 = Some(r);
        });
        let res = self.res.clone();
        ctl.spawn("B", "B", async move {
            let cur = match cb.get_shard_metadata(OLD).await {
                Ok(Some(m)) => m,
                other => {
                    res.lock().unwrap().1 = Some((0, Err(format!("read failed: {other:?}"))));
                    return;
                }
            };
            let mut upd = cur.clone();
            upd.replicas = vec![cardinalsin::sharding::ReplicaInfo { replica_id: "replica-1".into(), node_id: "node-B".into(), is_leader: true }];
            upd.max_time = 20_000;
            let r = cb.update_shard_metadata(OLD, &upd, cur.generation).await.map_err(|e| format!("{e:?}"));
            res.lock().unwrap().1 = Some((cur.generation, r));
        });
    }

    async fn finish(&mut self, ctl: &Ctl) -> Finish {
        let mut f = Finish::default();
        let unfinished = ctl.unfinished_actors();
        if !unfinished.is_empty() {
            f.violations.push(Violation { sig: "C13:cutover-race:stuck".into(), msg: format!("never finished: {unfinished:?}") });
            return f;
        }
        for (a, m) in ctl.panics() {
            f.violations.push(Violation { sig: "C13:cutover-race:panic".into(), msg: format!("{a} panicked: {m}") });
        }
        let (a, b) = self.res.lock().unwrap().clone();
        let fresh: Arc<dyn MetadataClient> = if self.p.backend == "object-store" { Arc::new(os_client(self.mem.clone())) } else { self.local.clone() };
        let stored = match fresh.get_shard_metadata(OLD).await.ok().flatten() {
            Some(m) => m,
            None => {
                f.violations.push(Violation { sig: "C13:cutover-race:old-shard-gone".into(), msg: "the old shard's document disappeared".into() });
                return f;
            }
        };
        let a_ok = matches!(a, Some(Ok(())));
        let b_ok = matches!(b, Some((_, Ok(()))));
        let desc = format!("cut-over -> {a:?}; leader move (based on generation {:?}) -> {:?}; stored: generation {} state {:?} leader {:?} max_time {}", b.as_ref().map(|x| x.0), b.as_ref().map(|x| x.1.clone()), stored.generation, stored.state, stored.replicas.first().map(|r| r.node_id.clone()), stored.max_time);
        if b_ok && (stored.replicas.first().map(|r| r.node_id.as_str()) != Some("node-B") || stored.max_time != 20_000) {
            f.violations.push(Violation { sig: "C13:cutover-race:acknowledged-update-overwritten-by-a-writer-on-older-state".into(), msg: format!("the leader move was acknowledged, yet the stored document does not carry it: {desc}") });
        }
        if a_ok && !matches!(stored.state, ShardState::PendingDeletion { .. }) {
            f.violations.push(Violation { sig: "C13:cutover-race:acknowledged-deactivation-overwritten-by-a-writer-on-older-state".into(), msg: format!("the cut-over was acknowledged, yet the old shard is not pending deletion: {desc}") });
        }
        // (how many updates a cut-over makes is its own business; that each one raises the generation by exactly one is
        // what parts (a) and (b) check)
        if let Some(Err(e)) = &a {
            if e.contains("Stale") {
                f.flags.push("cutover_rejected_as_stale".into());
            }
        }
        if let Some((_, Err(e))) = &b {
            if e.contains("Stale") {
                f.flags.push("leader_move_rejected_as_stale".into());
            }
        }
        if a_ok && b_ok {
            f.flags.push("both_acknowledged".into());
        }
        f.outcome = format!("a_ok={a_ok} b_ok={b_ok} gen={} state={:?} leader={:?}", stored.generation, std::mem::discriminant(&stored.state), stored.replicas.first().map(|r| r.node_id.clone()));
        f
    }
}

pub fn cutover_factory(p: CutoverRace) -> ScenarioFactory {
    Arc::new(move || Box::new(CutoverScenario { p: p.clone(), mem: new_mem(), local: Arc::new(LocalMetadataClient::new()), log: StoreLog::new(), res: Arc::new(Mutex::new((None, None))) }) as Box<dyn Scenario>)
}

fn cutover_races(rep: &mut Report, tier: &str) {
    for backend in ["in-memory", "object-store"] {
        let p = CutoverRace { backend: backend.into() };
        let bounds = Cost { preempt: if backend == "in-memory" { 1000 } else if tier == "thorough" { 4 } else { 3 }, ..Cost::ZERO };
        let cfg = ExploreConfig { bounds, use_cache: false, wall_cap: Duration::from_secs(if tier == "thorough" { 600 } else { 40 }), max_steps: 400, ..Default::default() };
        let st = explore(cutover_factory(p.clone()), &cfg);
        println!(
            "  C13 (c) cut-over vs leader move/{:<12} executions={:<7} transitions={:<8} depth={:<3} outcomes={:<3} violation-sigs={:<2} {:.1}s{}",
            backend, st.executions, st.transitions, st.max_depth, st.outcomes.len(), st.violations.len(), st.wall_s, if st.capped { " CAPPED" } else { "" }
        );
        for need in ["cutover_rejected_as_stale", "leader_move_rejected_as_stale", "both_acknowledged"] {
            if !st.flags.contains_key(need) && st.violations.is_empty() {
                rep.machinery(format!("vacuity guard: cut-over race on {backend}: no execution showed `{need}`"));
            }
        }
        rep.absorb_explore(&format!("cut-over vs leader move/{backend}"), &json!({"cutover_race": p}), &st, bounds);
    }
}
