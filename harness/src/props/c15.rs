//! C15 — dual-write routes each row to exactly one new shard; split-time reads stay exact.
//!
//! Engine C (bounded-exhaustive input enumeration against a reference), four sub-spaces:
//!
//! * **routing**   every (catalog back end × timestamp column type × split point × split phase × write history):
//!   the real `Ingester::write` runs against a split state installed through the real
//!   `MetadataClient::start_split` / `update_split_progress` for exactly the shard id the ingester computes
//!   (cross-checked through a call-recording wrapper); afterwards the chunks registered under
//!   `shard=<new A>` / `shard=<new B>` are decoded and compared with the accepted rows.
//! * **reads**     the same set-up plus a flush, then every query of a reduced C04 family through the real
//!   `QueryNode::query` is compared with the same SQL over a `MemTable` holding each accepted row once.
//! * **lifecycle** one split walked through Preparation → DualWrite → Backfill (phase update or the real
//!   `ShardSplitter::run_backfill`) → Cutover with a write in every phase; routing judged at every stop, reads
//!   judged in DualWrite and Backfill.
//! * **dedup-fn**  the de-duplication routine itself (feature-gated re-export) on every input of bounded size.

use super::c03::storage_config;
use super::common::{decode_rows, new_mem, os_client, Row};
use crate::engine::env::{self, EnvState, EPOCH_NS};
use crate::engine::meta::GatedMeta;
use crate::engine::report::Report;
use crate::engine::sched::Ctl;
use arrow_array::{Array, Float64Array, Int64Array, RecordBatch, StringArray, TimestampNanosecondArray};
use arrow_schema::{DataType, Field, Schema, TimeUnit};
use cardinalsin::ingester::{Ingester, IngesterConfig, WalConfig};
use cardinalsin::metadata::{LocalMetadataClient, MetadataClient};
use cardinalsin::query::{QueryConfig, QueryNode};
use cardinalsin::schema::MetricSchema;
use cardinalsin::sharding::{ShardKey, ShardSplitter, SplitPhase};
use futures::FutureExt;
use object_store::ObjectStore;
use serde::{Deserialize, Serialize};
use serde_json::json;
use std::collections::BTreeMap;
use std::panic::AssertUnwindSafe;
use std::sync::atomic::{AtomicBool, AtomicUsize, Ordering};
use std::sync::{Arc, Mutex};

/// main split point: 2025-06-01T11:30:00Z, half an hour before the frozen wall clock (inside the
/// "last hour" default window and inside every explicit window used by the queries)
const S_MAIN: i64 = EPOCH_NS - 1_800_000_000_000;
/// ids of the new lower / upper shard. In half of the cases the lower shard's id sorts *after* the upper one's (real
/// ids are random UUIDs): the split state's `new_shards` list is positional ([lower, upper]), not ordered by id.
fn new_ids(c: &Case) -> (&'static str, &'static str) {
    if c.desc_ids {
        ("0b0b0b0b-new-lower", "0a0a0a0a-new-upper")
    } else {
        ("0a0a0a0a-new-lower", "0b0b0b0b-new-upper")
    }
}
const METRICS: [&str; 2] = ["cpu", "mem"];
const SPLIT_METRIC: &str = "cpu";

// ------------------------------------------------------------------------------------------------
// case description (serialisable: it is the replay artefact)
// ------------------------------------------------------------------------------------------------

/// One row, relative to the split point: ts = split + dt, metric = METRICS[m], host = [a, b, NULL][h], value = v.
#[derive(Clone, Copy, Debug, PartialEq, Eq, PartialOrd, Ord, Hash, Serialize, Deserialize)]
pub struct R {
    pub dt: i8,
    pub m: u8,
    pub h: u8,
    pub v: u8,
}

#[derive(Clone, Copy, Debug, PartialEq, Eq, PartialOrd, Ord, Hash, Serialize, Deserialize)]
pub enum Ph {
    /// no split state at all
    None,
    Preparation,
    DualWrite,
    Backfill,
    Cutover,
    Cleanup,
    /// the written shard has no split state, a different shard is in DualWrite
    OtherShardDualWrite,
}

impl Ph {
    fn dual(self) -> bool {
        matches!(self, Ph::DualWrite | Ph::Backfill)
    }
    /// phases in which the property speaks about reads
    fn reads_judged(self) -> bool {
        matches!(self, Ph::DualWrite | Ph::Backfill | Ph::OtherShardDualWrite)
    }
    /// phases without any double writing and without de-duplication: reads must trivially be exact there,
    /// a mismatch is a harness problem (or a C04 matter), never a C15 verdict
    fn reads_control(self) -> bool {
        matches!(self, Ph::None | Ph::Preparation)
    }
}

#[derive(Clone, Debug, PartialEq, Serialize, Deserialize)]
pub enum Op {
    Phase(Ph),
    Write(Vec<R>),
    /// drain the ingester's buffer into an old-shard chunk (graceful-shutdown flush of `run_flush_timer`)
    Flush,
    /// the real `ShardSplitter::run_backfill` (moves the split to Backfill itself)
    RunBackfill,
    /// data the old shard already holds before the split: a registered chunk laid out under the old shard's id
    /// (`<old shard>/hist_<n>.parquet`, the layout `get_chunks_for_shard` and the splitter's back-fill work on)
    Historical(Vec<R>),
    /// judge routing (always) and reads (if the case carries queries and the phase is judged)
    Check,
}

#[derive(Clone, Debug, Serialize, Deserialize)]
pub struct Case {
    /// catalog back end: false = in-memory, true = object store
    pub os: bool,
    /// timestamp column: false = Int64, true = Timestamp(ns, UTC)
    pub ts_type: bool,
    pub split: i64,
    /// flush after every write (flush_row_count = 1) instead of only at `Flush`
    pub flush_each: bool,
    pub reads: bool,
    pub script: Vec<Op>,
    /// the lower new shard's id sorts after the upper one's
    #[serde(default)]
    pub desc_ids: bool,
}

fn to_row(r: &R, split: i64) -> Row {
    Row {
        ts: split + r.dt as i64,
        metric: METRICS[r.m as usize].to_string(),
        host: match r.h {
            0 => Some("a".to_string()),
            1 => Some("b".to_string()),
            _ => None,
        },
        id: -1,
        value: r.v as f64,
    }
}

/// Batch without an id column: rows that agree in (timestamp, metric, host, value) are exact duplicates.
fn batch_of(rows: &[Row], ts_type: bool) -> RecordBatch {
    batch_of_strings(rows, ts_type, false)
}

/// `view`: string columns as Utf8View (what the query engine hands to the de-duplication) instead of Utf8
fn batch_of_strings(rows: &[Row], ts_type: bool, view: bool) -> RecordBatch {
    let ts_field = if ts_type {
        Field::new("timestamp", DataType::Timestamp(TimeUnit::Nanosecond, Some("UTC".into())), false)
    } else {
        Field::new("timestamp", DataType::Int64, false)
    };
    let st = if view { DataType::Utf8View } else { DataType::Utf8 };
    let schema = Arc::new(Schema::new(vec![
        ts_field,
        Field::new("metric_name", st.clone(), false),
        Field::new("host", st, true),
        Field::new("value_f64", DataType::Float64, true),
    ]));
    let ts: Vec<i64> = rows.iter().map(|r| r.ts).collect();
    let ts_arr: Arc<dyn Array> = if ts_type {
        Arc::new(TimestampNanosecondArray::from(ts).with_timezone("UTC"))
    } else {
        Arc::new(Int64Array::from(ts))
    };
    let metrics: Vec<String> = rows.iter().map(|r| r.metric.clone()).collect();
    let hosts: Vec<Option<String>> = rows.iter().map(|r| r.host.clone()).collect();
    let (m_arr, h_arr): (Arc<dyn Array>, Arc<dyn Array>) = if view {
        (Arc::new(arrow_array::StringViewArray::from_iter_values(metrics.iter())), Arc::new(arrow_array::StringViewArray::from_iter(hosts.iter().map(|h| h.as_deref()))))
    } else {
        (Arc::new(StringArray::from(metrics)), Arc::new(StringArray::from(hosts)))
    };
    RecordBatch::try_new(schema, vec![ts_arr, m_arr, h_arr, Arc::new(Float64Array::from(rows.iter().map(|r| r.value).collect::<Vec<_>>()))]).expect("batch")
}

type Key = (i64, String, Option<String>, u64);
fn key(r: &Row) -> Key {
    (r.ts, r.metric.clone(), r.host.clone(), r.value.to_bits())
}
fn show(r: &Row, split: i64) -> String {
    format!("(split{:+}, {}, {}, {})", r.ts - split, r.metric, r.host.as_deref().unwrap_or("NULL"), r.value)
}

/// The shard id `Ingester::compute_shard_id` derives for a batch whose first row is (metric, ts), built from
/// the repository's own `ShardKey` (the call-recording wrapper cross-checks it on every write).
fn shard_id_of(metric: &str, ts: i64) -> String {
    let k = ShardKey::new(0, metric, ts);
    format!("shard-{:x}", u64::from_be_bytes(k.to_bytes()[0..8].try_into().unwrap()))
}

// ------------------------------------------------------------------------------------------------
// queries (reduced C04 family; every window form is one the C04 check found to be handled exactly)
// ------------------------------------------------------------------------------------------------

#[derive(Clone, Copy, Debug, PartialEq, Eq)]
enum Kind {
    /// plain selection whose output starts with (timestamp, metric_name)
    RowLevel,
    /// plain selection whose output has no timestamp / metric_name column
    Projection,
    Aggregate,
}

#[derive(Clone, Debug)]
struct Q {
    name: &'static str,
    kind: Kind,
    sql: String,
}

fn queries(split: i64, ts_type: bool, tier: &str) -> Vec<Q> {
    let lit = |ns: i64| -> String {
        if ts_type {
            let dt = chrono::DateTime::<chrono::Utc>::from_timestamp(ns.div_euclid(1_000_000_000), ns.rem_euclid(1_000_000_000) as u32).unwrap();
            format!("TIMESTAMP '{}'", dt.format("%Y-%m-%dT%H:%M:%S%.9fZ"))
        } else {
            ns.to_string()
        }
    };
    let w = format!("timestamp >= {} AND timestamp <= {}", lit(split - 600_000_000_000), lit(split + 600_000_000_000));
    let s = lit(split);
    let mut v = vec![
        // first on a fresh node: no WHERE clause (the default window is the last hour, which holds every row)
        Q { name: "count-no-where", kind: Kind::Aggregate, sql: "SELECT count(*) FROM metrics".into() },
        Q { name: "rows", kind: Kind::RowLevel, sql: format!("SELECT timestamp, metric_name, host, value_f64 FROM metrics WHERE {w}") },
        Q { name: "count", kind: Kind::Aggregate, sql: format!("SELECT count(*) FROM metrics WHERE {w}") },
        Q { name: "sum", kind: Kind::Aggregate, sql: format!("SELECT sum(value_f64) FROM metrics WHERE {w}") },
        Q { name: "project-host-value", kind: Kind::Projection, sql: format!("SELECT host, value_f64 FROM metrics WHERE {w}") },
        Q { name: "group-by-metric", kind: Kind::Aggregate, sql: format!("SELECT metric_name, count(*), sum(value_f64) FROM metrics WHERE {w} GROUP BY metric_name") },
        Q { name: "group-by-host", kind: Kind::Aggregate, sql: format!("SELECT host, count(*) FROM metrics WHERE {w} GROUP BY host") },
        Q { name: "group-by-series", kind: Kind::Aggregate, sql: format!("SELECT timestamp, metric_name, host, count(*), sum(value_f64) FROM metrics WHERE {w} GROUP BY timestamp, metric_name, host") },
        Q { name: "min-max-avg", kind: Kind::Aggregate, sql: format!("SELECT min(value_f64), max(value_f64), avg(value_f64) FROM metrics WHERE {w}") },
        Q { name: "rows-host-a", kind: Kind::RowLevel, sql: format!("SELECT timestamp, metric_name, host, value_f64 FROM metrics WHERE {w} AND host = 'a'") },
        Q { name: "rows-at-or-above-split", kind: Kind::RowLevel, sql: format!("SELECT timestamp, metric_name, host, value_f64 FROM metrics WHERE {w} AND timestamp >= {s}") },
    ];
    if tier == "thorough" {
        v.extend([
            Q { name: "star", kind: Kind::RowLevel, sql: format!("SELECT * FROM metrics WHERE {w}") },
            Q { name: "keys-only", kind: Kind::RowLevel, sql: format!("SELECT timestamp, metric_name FROM metrics WHERE {w}") },
            Q { name: "rows-value-gt-1", kind: Kind::RowLevel, sql: format!("SELECT timestamp, metric_name, host, value_f64 FROM metrics WHERE {w} AND value_f64 > 1.0") },
            Q { name: "rows-below-split", kind: Kind::RowLevel, sql: format!("SELECT timestamp, metric_name, host, value_f64 FROM metrics WHERE {w} AND timestamp < {s}") },
            Q {
                name: "order-limit",
                kind: Kind::RowLevel,
                sql: format!("SELECT timestamp, metric_name, host, value_f64 FROM metrics WHERE {w} ORDER BY timestamp, metric_name, host, value_f64 LIMIT 3"),
            },
            Q { name: "distinct-host", kind: Kind::Aggregate, sql: format!("SELECT DISTINCT host FROM metrics WHERE {w}") },
            Q { name: "group-by-ts-metric", kind: Kind::Aggregate, sql: format!("SELECT timestamp, metric_name, count(*) FROM metrics WHERE {w} GROUP BY timestamp, metric_name") },
            Q { name: "count-host-a", kind: Kind::Aggregate, sql: format!("SELECT count(*) FROM metrics WHERE {w} AND host = 'a'") },
        ]);
    }
    v
}

/// result as a sorted multiset of rendered rows
fn norm(batches: &[RecordBatch]) -> Result<Vec<String>, String> {
    use arrow::util::display::{ArrayFormatter, FormatOptions};
    let opts = FormatOptions::default().with_null("NULL");
    let mut out = Vec::new();
    for b in batches {
        let fm: Vec<ArrayFormatter> = b
            .columns()
            .iter()
            .map(|c| ArrayFormatter::try_new(c.as_ref(), &opts).map_err(|e| e.to_string()))
            .collect::<Result<_, _>>()?;
        for i in 0..b.num_rows() {
            out.push(fm.iter().map(|f| f.value(i).to_string()).collect::<Vec<_>>().join("|"));
        }
    }
    out.sort();
    Ok(out)
}

fn counts(v: &[String]) -> BTreeMap<&str, i64> {
    let mut m = BTreeMap::new();
    for s in v {
        *m.entry(s.as_str()).or_insert(0) += 1;
    }
    m
}
/// a − b as a multiset
fn minus(a: &[String], b: &[String]) -> Vec<String> {
    let cb = counts(b);
    let mut out = Vec::new();
    for (s, n) in counts(a) {
        let k = n - cb.get(s).copied().unwrap_or(0);
        for _ in 0..k.max(0) {
            out.push(s.to_string());
        }
    }
    out
}
fn key_prefix(row: &str, n: usize) -> String {
    row.split('|').take(n).collect::<Vec<_>>().join("|")
}

/// Why does `got` differ from the exact answer `e`? `p` is the same query over every physically stored copy
/// (old shard + new shards) without any de-duplication.
fn classify(kind: Kind, got: &[String], e: &[String], p: &[String]) -> &'static str {
    let missing = minus(e, got);
    let extra = minus(got, e);
    match kind {
        Kind::RowLevel => {
            if extra.is_empty() {
                // rows were dropped: the most specific reason over all dropped rows, worst first
                let mut worst = 0;
                for m in &missing {
                    let c = if got.iter().any(|g| g == m) {
                        1 // an identical copy survives: genuine duplicate collapsed
                    } else if got.iter().any(|g| key_prefix(g, 2) == key_prefix(m, 2)) {
                        2
                    } else if got.iter().any(|g| key_prefix(g, 1) == key_prefix(m, 1)) {
                        3
                    } else {
                        4
                    };
                    worst = worst.max(c);
                }
                match worst {
                    1 => "genuine-exact-duplicate-row-collapsed",
                    2 => "rows-sharing-timestamp-and-metric-collapsed",
                    3 => "rows-sharing-only-timestamp-collapsed",
                    _ => "row-missing",
                }
            } else if got == p {
                "double-written-copies-not-suppressed"
            } else if missing.is_empty() {
                "extra-rows"
            } else {
                "wrong-rows"
            }
        }
        Kind::Projection => {
            if got == p {
                "double-written-copies-not-suppressed"
            } else if extra.is_empty() {
                "rows-dropped"
            } else {
                "wrong-rows"
            }
        }
        Kind::Aggregate => {
            if got == p {
                "computed-over-double-written-copies"
            } else if minus(got, p).is_empty() || extra.is_empty() {
                "result-rows-dropped-after-aggregation"
            } else {
                "wrong-result"
            }
        }
    }
}

// ------------------------------------------------------------------------------------------------
// one case
// ------------------------------------------------------------------------------------------------

#[derive(Clone, Debug)]
struct Fail {
    sig: String,
    msg: String,
}

#[derive(Default, Clone, Debug)]
struct Stats {
    writes: u64,
    accepted: u64,
    rejected_dual_timestamp_typed: u64,
    rejected_other: u64,
    dual_writes_done: u64,
    rows_to_a: u64,
    rows_to_b: u64,
    rows_at_split_to_b: u64,
    /// rows about whose shard the property is silent (see the first assumption), by class
    lenient_other_metric_in_split_headed_batch: u64,
    lenient_split_metric_in_foreign_headed_batch: u64,
    lenient_rows_of_rejected_writes: u64,
    /// copies actually found in the new shards beyond the required ones, by the row's metric
    optional_copies_split_metric: u64,
    optional_copies_other_metric: u64,
    new_shard_chunks: u64,
    backfill_chunks: u64,
    checks: u64,
    read_checks: u64,
    read_checks_skipped_rejected: u64,
    queries: u64,
    queries_control: u64,
    queries_copies_present: u64,
    queries_copies_present_exact: u64,
    queries_dedup_active_no_copies: u64,
    both_error: u64,
    nontrivial: u64,
}
impl Stats {
    fn add(&mut self, o: &Stats) {
        macro_rules! a { ($($f:ident),*) => { $( self.$f += o.$f; )* } }
        a!(
            writes, accepted, rejected_dual_timestamp_typed, rejected_other, dual_writes_done, rows_to_a, rows_to_b, rows_at_split_to_b,
            lenient_other_metric_in_split_headed_batch, lenient_split_metric_in_foreign_headed_batch, lenient_rows_of_rejected_writes,
            optional_copies_split_metric, optional_copies_other_metric, new_shard_chunks, backfill_chunks, checks, read_checks,
            read_checks_skipped_rejected, queries, queries_control, queries_copies_present, queries_copies_present_exact,
            queries_dedup_active_no_copies, both_error, nontrivial
        );
    }
}

#[derive(Default)]
struct Outcome {
    fails: Vec<Fail>,
    machinery: Vec<String>,
    stats: Stats,
    log: Vec<String>,
}

struct WriteRec {
    rows: Vec<Row>,
    phase: Ph,
    head_is_split_shard: bool,
    accepted: bool,
}

fn ref_ctx(rows: &[Row], ts_type: bool) -> datafusion::prelude::SessionContext {
    use datafusion::prelude::{SessionConfig, SessionContext};
    let ctx = SessionContext::new_with_config(SessionConfig::new().with_target_partitions(1));
    let b = batch_of(rows, ts_type);
    let t = datafusion::datasource::MemTable::try_new(b.schema(), vec![vec![b]]).expect("memtable");
    ctx.register_table("metrics", Arc::new(t)).expect("register");
    ctx
}

type RefKey = (bool, Vec<Key>, String);
static REF_CACHE: std::sync::OnceLock<Mutex<std::collections::HashMap<RefKey, Result<Vec<String>, String>>>> = std::sync::OnceLock::new();

/// The reference: `sql` over a `MemTable` holding exactly `rows` (a multiset; memoised across cases, the
/// answer depends on nothing else).
struct Reference {
    rows: Vec<Row>,
    ts_type: bool,
    sorted: Vec<Key>,
    ctx: Option<datafusion::prelude::SessionContext>,
}
impl Reference {
    fn new(rows: Vec<Row>, ts_type: bool) -> Self {
        let mut sorted: Vec<Key> = rows.iter().map(key).collect();
        sorted.sort();
        Self { rows, ts_type, sorted, ctx: None }
    }
    async fn query(&mut self, sql: &str) -> Result<Vec<String>, String> {
        let k: RefKey = (self.ts_type, self.sorted.clone(), sql.to_string());
        let cache = REF_CACHE.get_or_init(|| Mutex::new(std::collections::HashMap::new()));
        if let Some(v) = cache.lock().unwrap().get(&k) {
            return v.clone();
        }
        if self.ctx.is_none() {
            self.ctx = Some(ref_ctx(&self.rows, self.ts_type));
        }
        let ctx = self.ctx.as_ref().unwrap();
        let r = async {
            let df = ctx.sql(sql).await.map_err(|e| e.to_string())?;
            let b = df.collect().await.map_err(|e| e.to_string())?;
            norm(&b)
        }
        .await;
        cache.lock().unwrap().insert(k, r.clone());
        r
    }
}

async fn run_case(c: &Case, tier: &str, verbose: bool) -> Outcome {
    let mut out = Outcome::default();
    let envs = EnvState::new();
    env::install(&envs);
    let r = AssertUnwindSafe(run_case_inner(c, tier, verbose, &envs, &mut out)).catch_unwind().await;
    env::uninstall();
    if let Err(p) = r {
        let m = p.downcast_ref::<String>().cloned().or_else(|| p.downcast_ref::<&str>().map(|s| s.to_string())).unwrap_or_default();
        out.machinery.push(format!("harness panicked outside the judged calls: {m}"));
    }
    out
}

async fn run_case_inner(c: &Case, tier: &str, verbose: bool, envs: &Arc<EnvState>, out: &mut Outcome) {
    macro_rules! say { ($($t:tt)*) => { if verbose { out.log.push(format!($($t)*)); } } }
    let store = new_mem();
    let inner: Arc<dyn MetadataClient> = if c.os { Arc::new(os_client(store.clone())) } else { Arc::new(LocalMetadataClient::new()) };
    let ctl = Ctl::new(envs.clone());
    let spy = GatedMeta::with_filter(inner.clone(), "ingester", &ctl, |_| false);
    let split_shard = shard_id_of(SPLIT_METRIC, c.split);
    let other_shard = format!("{split_shard}-unrelated");
    let split_point = c.split.to_be_bytes().to_vec();
    let cfg = IngesterConfig {
        flush_row_count: if c.flush_each { 1 } else { 1_000_000 },
        wal: WalConfig { enabled: false, ..WalConfig::default() },
        ..IngesterConfig::default()
    };
    let ingester = Ingester::new(cfg, store.clone(), spy.clone() as Arc<dyn MetadataClient>, storage_config(), MetricSchema::default_metrics());

    let mut phase = Ph::None;
    let mut split_started = false;
    let mut writes: Vec<WriteRec> = Vec::new();

    for (step, op) in c.script.iter().enumerate() {
        match op {
            Op::Phase(p) => {
                let r: Result<(), cardinalsin::Error> = async {
                    match p {
                        Ph::None => {}
                        Ph::OtherShardDualWrite => {
                            inner.start_split(&other_shard, vec!["0c0c-x".into(), "0d0d-y".into()], split_point.clone()).await?;
                            inner.update_split_progress(&other_shard, 0.0, SplitPhase::DualWrite).await?;
                        }
                        _ => {
                            if !split_started {
                                inner.start_split(&split_shard, vec![new_ids(c).0.into(), new_ids(c).1.into()], split_point.clone()).await?;
                                split_started = true;
                            }
                            match p {
                                Ph::DualWrite => inner.update_split_progress(&split_shard, 0.0, SplitPhase::DualWrite).await?,
                                Ph::Backfill => inner.update_split_progress(&split_shard, 0.5, SplitPhase::Backfill).await?,
                                Ph::Cutover => inner.update_split_progress(&split_shard, 1.0, SplitPhase::Cutover).await?,
                                Ph::Cleanup => inner.update_split_progress(&split_shard, 1.0, SplitPhase::Cleanup).await?,
                                _ => {}
                            }
                        }
                    }
                    Ok(())
                }
                .await;
                if let Err(e) = r {
                    out.machinery.push(format!("step {step}: could not install phase {p:?}: {e}"));
                    return;
                }
                // the installed state must be what the ingester will read
                if !matches!(p, Ph::None | Ph::OtherShardDualWrite) {
                    let st = inner.get_split_state(&split_shard).await.ok().flatten();
                    let want = match p {
                        Ph::Preparation => SplitPhase::Preparation,
                        Ph::DualWrite => SplitPhase::DualWrite,
                        Ph::Backfill => SplitPhase::Backfill,
                        Ph::Cutover => SplitPhase::Cutover,
                        _ => SplitPhase::Cleanup,
                    };
                    if st.as_ref().map(|s| s.phase) != Some(want) {
                        out.machinery.push(format!("step {step}: split state after installing {p:?} is {:?}", st.map(|s| s.phase)));
                        return;
                    }
                }
                phase = *p;
                say!("step {step}: phase := {p:?}");
            }
            Op::Historical(rs) => {
                let rows: Vec<Row> = rs.iter().map(|r| to_row(r, c.split)).collect();
                let n = writes.len();
                let path = format!("{split_shard}/hist_{n}.parquet");
                let bytes = super::common::encode_parquet(&batch_of(&rows, c.ts_type));
                let size = bytes.len() as u64;
                if let Err(e) = store.put(&object_store::path::Path::from(path.as_str()), bytes.into()).await {
                    out.machinery.push(format!("step {step}: historical chunk upload: {e}"));
                    return;
                }
                let m = cardinalsin::ingester::ChunkMetadata {
                    path: path.clone(),
                    min_timestamp: rows.iter().map(|r| r.ts).min().unwrap_or(0),
                    max_timestamp: rows.iter().map(|r| r.ts).max().unwrap_or(0),
                    row_count: rows.len() as u64,
                    size_bytes: size,
                };
                if let Err(e) = inner.register_chunk(&path, &m).await {
                    out.machinery.push(format!("step {step}: historical chunk registration: {e}"));
                    return;
                }
                say!("step {step}: historical chunk {path} = {:?}", rows.iter().map(|r| show(r, c.split)).collect::<Vec<_>>());
                // ingested before the split: counts as accepted rows of the old shard, nothing is dual-written for it
                writes.push(WriteRec { rows, phase: Ph::None, head_is_split_shard: true, accepted: true });
            }
            Op::RunBackfill => {
                let sp = ShardSplitter::new(inner.clone(), store.clone());
                let r = AssertUnwindSafe(sp.run_backfill(&split_shard, &[new_ids(c).0.to_string(), new_ids(c).1.to_string()], &split_point)).catch_unwind().await;
                match r {
                    Ok(Ok(())) => {}
                    Ok(Err(e)) => {
                        out.machinery.push(format!("step {step}: run_backfill failed: {e}"));
                        return;
                    }
                    Err(_) => {
                        out.machinery.push(format!("step {step}: run_backfill panicked"));
                        return;
                    }
                }
                let st = inner.get_split_state(&split_shard).await.ok().flatten();
                if st.as_ref().map(|s| s.phase) != Some(SplitPhase::Backfill) {
                    out.machinery.push(format!("step {step}: split state after run_backfill is {:?}", st.map(|s| s.phase)));
                    return;
                }
                phase = Ph::Backfill;
                say!("step {step}: run_backfill ok, phase := Backfill (progress {:?})", st.map(|s| s.backfill_progress));
            }
            Op::Write(rs) => {
                let rows: Vec<Row> = rs.iter().map(|r| to_row(r, c.split)).collect();
                let head = shard_id_of(&rows[0].metric, rows[0].ts);
                let before = spy.log_snapshot().len();
                let batch = batch_of(&rows, c.ts_type);
                let r = AssertUnwindSafe(ingester.write(batch)).catch_unwind().await;
                out.stats.writes += 1;
                let asked: Vec<String> = spy.log_snapshot()[before..].iter().filter(|e| e.method == "get_split_state").map(|e| e.arg.clone()).collect();
                // self-check of the harness's shard-id computation; an ingester that does not ask (because it remembers
                // an earlier answer) is not a machinery matter: what it then does with the rows is judged below
                if asked.iter().any(|a| *a != head) {
                    out.machinery.push(format!("step {step}: the ingester asked for the split state of {asked:?}, the harness computed {head}"));
                    return;
                }
                let accepted = match &r {
                    Ok(Ok(())) => true,
                    Ok(Err(e)) => {
                        let es = e.to_string();
                        if phase.dual() && head == split_shard && c.ts_type && es.contains("Timestamp not Int64") {
                            out.stats.rejected_dual_timestamp_typed += 1;
                        } else if es.contains("Timestamp not Int64") {
                            // only the dual-write path produces this error
                            out.stats.rejected_other += 1;
                            out.fails.push(Fail {
                                sig: "C15:routing:dual-write-path-taken-outside-dual-write-phases".into(),
                                msg: format!("step {step}: a Timestamp-typed write in phase {phase:?} (batch shard {head}, splitting shard {split_shard}) was rejected by the dual-write path: {es}"),
                            });
                        } else {
                            out.stats.rejected_other += 1;
                            out.machinery.push(format!("step {step}: write in phase {phase:?} was rejected unexpectedly: {es}"));
                        }
                        say!("step {step}: write {:?} REJECTED: {es}", rows.iter().map(|r| show(r, c.split)).collect::<Vec<_>>());
                        false
                    }
                    Err(_) => {
                        out.fails.push(Fail { sig: "C15:routing:write-panicked".into(), msg: format!("step {step}: Ingester::write panicked in phase {phase:?}") });
                        false
                    }
                };
                if accepted {
                    out.stats.accepted += 1;
                    say!("step {step}: write {:?} accepted (phase {phase:?}, batch shard {head})", rows.iter().map(|r| show(r, c.split)).collect::<Vec<_>>());
                }
                writes.push(WriteRec { rows, phase, head_is_split_shard: head == split_shard, accepted });
            }
            Op::Flush => {
                ingester.shutdown_token().cancel();
                let r = AssertUnwindSafe(ingester.run_flush_timer()).catch_unwind().await;
                if r.is_err() {
                    out.machinery.push(format!("step {step}: flush panicked"));
                    return;
                }
                let st = ingester.buffer_stats().await;
                if st.row_count != 0 {
                    out.machinery.push(format!("step {step}: {} rows still buffered after the flush", st.row_count));
                    return;
                }
                say!("step {step}: flush");
            }
            Op::Check => {
                out.stats.checks += 1;
                // ---- what is stored -----------------------------------------------------------
                let chunks = match inner.list_chunks().await {
                    Ok(c) => c,
                    Err(e) => {
                        out.machinery.push(format!("step {step}: list_chunks: {e}"));
                        return;
                    }
                };
                let mut in_a: Vec<Row> = Vec::new();
                let mut in_b: Vec<Row> = Vec::new();
                let mut in_old: Vec<Row> = Vec::new();
                let mut physical: Vec<Row> = Vec::new();
                for ch in &chunks {
                    let data = match store.get(&object_store::path::Path::from(ch.chunk_path.as_str())).await {
                        Ok(r) => r.bytes().await.unwrap_or_default(),
                        Err(e) => {
                            out.machinery.push(format!("step {step}: registered chunk {} unreadable: {e}", ch.chunk_path));
                            return;
                        }
                    };
                    let rows = match decode_rows(data) {
                        Ok(r) => r,
                        Err(e) => {
                            out.machinery.push(format!("step {step}: chunk {} does not decode: {e}", ch.chunk_path));
                            return;
                        }
                    };
                    let rows: Vec<Row> = rows.into_iter().map(|mut r| { r.id = -1; r }).collect();
                    let (NEW_A, NEW_B) = new_ids(c);
                    let side = if ch.chunk_path.contains(&format!("shard={NEW_A}/")) {
                        out.stats.new_shard_chunks += 1;
                        in_a.extend(rows.iter().cloned());
                        "new-lower"
                    } else if ch.chunk_path.contains(&format!("shard={NEW_B}/")) {
                        out.stats.new_shard_chunks += 1;
                        in_b.extend(rows.iter().cloned());
                        "new-upper"
                    } else if ch.chunk_path.contains(NEW_A) || ch.chunk_path.contains(NEW_B) {
                        out.stats.backfill_chunks += 1;
                        "backfill"
                    } else if ch.chunk_path.contains("shard=") {
                        out.fails.push(Fail {
                            sig: "C15:routing:chunk-written-under-an-unrelated-shard".into(),
                            msg: format!("step {step}: chunk {} is neither an old-shard chunk nor under one of the two new shards of the split", ch.chunk_path),
                        });
                        "unrelated-shard"
                    } else {
                        in_old.extend(rows.iter().cloned());
                        "old"
                    };
                    say!("step {step}:   chunk [{side}] {} = {:?}", ch.chunk_path, rows.iter().map(|r| show(r, c.split)).collect::<Vec<_>>());
                    physical.extend(rows);
                }
                // ---- routing oracle -----------------------------------------------------------
                judge_routing(c, step, &writes, &in_a, &in_b, out);
                // "additionally": the old shard keeps receiving every accepted row (the buffer was flushed)
                if ingester.buffer_stats().await.row_count == 0 {
                    let mut need: BTreeMap<Key, i64> = BTreeMap::new();
                    for w in writes.iter().filter(|w| w.accepted) {
                        for r in &w.rows {
                            *need.entry(key(r)).or_insert(0) += 1;
                        }
                    }
                    for r in &in_old {
                        if let Some(n) = need.get_mut(&key(r)) {
                            *n -= 1;
                        }
                    }
                    if let Some((k, n)) = need.iter().find(|(_, n)| **n > 0) {
                        out.fails.push(Fail {
                            sig: "C15:routing:accepted-row-missing-from-old-shard".into(),
                            msg: format!("step {step}: after the flush the old shard's chunks lack {n} cop(ies) of (ts {}, {}, {}, {})", k.0, k.1, k.2.as_deref().unwrap_or("NULL"), f64::from_bits(k.3)),
                        });
                    }
                }
                // ---- reads ----------------------------------------------------------------------
                if !c.reads || !(phase.reads_judged() || phase.reads_control()) {
                    continue;
                }
                if writes.iter().any(|w| !w.accepted) {
                    out.stats.read_checks_skipped_rejected += 1;
                    continue;
                }
                out.stats.read_checks += 1;
                let exact_rows: Vec<Row> = writes.iter().flat_map(|w| w.rows.iter().cloned()).collect();
                let mut ref_e = Reference::new(exact_rows, c.ts_type);
                let mut ref_p = Reference::new(physical, c.ts_type);
                // a fresh query node (and, on the object-store back end, a fresh catalog client) per check:
                // the catalog client caches the chunk list for a TTL, and bounded staleness is not C15's matter
                let meta_q: Arc<dyn MetadataClient> = if c.os { Arc::new(os_client(store.clone())) } else { inner.clone() };
                let qc = QueryConfig { l1_cache_size: 8 * 1024 * 1024, l2_cache_dir: None, ..QueryConfig::default() };
                let n = match QueryNode::new(qc, store.clone(), meta_q, storage_config()).await {
                    Ok(n) => n,
                    Err(e) => {
                        out.machinery.push(format!("step {step}: QueryNode::new: {e}"));
                        return;
                    }
                };
                for q in queries(c.split, c.ts_type, tier) {
                    // (a node whose `metrics` table is still the built-in empty one plans against the default
                    // schema; that is C04's matter, so the first statement of the family is the no-WHERE count)
                    let e = ref_e.query(&q.sql).await;
                    let p = ref_p.query(&q.sql).await;
                    let got = AssertUnwindSafe(n.query(&q.sql)).catch_unwind().await;
                    out.stats.queries += 1;
                    let mut metric_type = String::new();
                    let got: Result<Vec<String>, String> = match got {
                        Err(_) => {
                            out.fails.push(Fail { sig: format!("C15:reads:{}:query-panicked", kind_name(q.kind)), msg: format!("step {step} phase {phase:?}: `{}` panicked", q.sql) });
                            continue;
                        }
                        Ok(Ok(b)) => {
                            if let Some(b0) = b.first() {
                                if let Ok(f) = b0.schema().field_with_name("metric_name") {
                                    metric_type = f.data_type().to_string();
                                }
                                say!("step {step}:   [{}] result columns {:?}", q.name, b0.schema().fields().iter().map(|f| format!("{}:{}", f.name(), f.data_type())).collect::<Vec<_>>());
                            }
                            norm(&b)
                        }
                        Ok(Err(e)) => Err(e.to_string()),
                    };
                    let (e, p) = match (e, p) {
                        (Ok(e), Ok(p)) => (e, p),
                        (Err(ee), _) | (_, Err(ee)) => {
                            if got.is_err() {
                                out.stats.both_error += 1;
                            } else {
                                out.machinery.push(format!("step {step}: reference rejects `{}` ({ee}) but the subject answers", q.sql));
                            }
                            continue;
                        }
                    };
                    let copies = e != p;
                    if phase.reads_control() {
                        out.stats.queries_control += 1;
                        if got.as_ref().ok() != Some(&e) {
                            out.machinery.push(format!(
                                "control: with no active split `{}` returned {:?}, a full scan gives {:?} (not a C15 matter: harness or C04)",
                                q.sql, got, e
                            ));
                        }
                        continue;
                    }
                    if copies {
                        out.stats.queries_copies_present += 1;
                        out.stats.nontrivial += 1;
                    } else {
                        out.stats.queries_dedup_active_no_copies += 1;
                    }
                    match got {
                        Err(err) => {
                            out.fails.push(Fail {
                                sig: format!("C15:reads:{}:query-error", kind_name(q.kind)),
                                msg: format!("step {step} phase {phase:?}: `{}` failed with `{err}`; exact answer {:?}", q.sql, e),
                            });
                        }
                        Ok(g) if g == e => {
                            if copies {
                                out.stats.queries_copies_present_exact += 1;
                            }
                            say!("step {step}:   ok   [{}] {:?}", q.name, g);
                        }
                        Ok(g) => {
                            let mut class = classify(q.kind, &g, &e, &p).to_string();
                            if q.kind == Kind::RowLevel && class == "double-written-copies-not-suppressed" {
                                // the de-duplication only understands a Utf8 metric_name column
                                class = format!("{class}:metric_name-column-arrives-as-{metric_type}");
                            }
                            say!("step {step}:   FAIL [{}] got {:?} exact {:?} all-copies {:?}", q.name, g, e, p);
                            out.fails.push(Fail {
                                sig: format!("C15:reads:{}:{}", kind_name(q.kind), class),
                                msg: format!(
                                    "phase {phase:?}, writes {:?}: `{}` returned {:?}; each ingested row once gives {:?}; every stored copy without de-duplication gives {:?}",
                                    writes.iter().map(|w| w.rows.iter().map(|r| show(r, c.split)).collect::<Vec<_>>()).collect::<Vec<_>>(),
                                    q.sql,
                                    g,
                                    e,
                                    p
                                ),
                            });
                        }
                    }
                }
            }
        }
    }
    if out.stats.dual_writes_done > 0 {
        out.stats.nontrivial += 1;
    }
}

fn kind_name(k: Kind) -> &'static str {
    match k {
        Kind::RowLevel => "row-level",
        Kind::Projection => "projection-without-key-columns",
        Kind::Aggregate => "aggregate",
    }
}

/// Routing oracle over everything written so far.
///
/// Per row occurrence: written in DualWrite/Backfill by an accepted write whose batch belongs to the splitting
/// shard (as the ingester defines a batch's shard: by its first row) and whose own metric is the splitting
/// one -> exactly one copy, on its side. Written outside those phases, or row and batch both of another
/// shard -> no copy. Mixed cases (row of the splitting metric in a batch headed by another shard, or the
/// other way round) and rows of rejected writes -> zero or one copy, on the right side if present.
fn judge_routing(c: &Case, step: usize, writes: &[WriteRec], in_a: &[Row], in_b: &[Row], out: &mut Outcome) {
    let split = c.split;
    let mut lo: BTreeMap<Key, i64> = BTreeMap::new();
    let mut hi: BTreeMap<Key, i64> = BTreeMap::new();
    let mut shown: BTreeMap<Key, String> = BTreeMap::new();
    let mut any_dual = false;
    let (mut cat_a, mut cat_b, mut cat_c) = (0u64, 0u64, 0u64);
    for w in writes {
        for r in &w.rows {
            let k = key(r);
            shown.entry(k.clone()).or_insert_with(|| show(r, split));
            lo.entry(k.clone()).or_insert(0);
            hi.entry(k.clone()).or_insert(0);
            if !w.phase.dual() {
                continue;
            }
            any_dual = true;
            let own = r.metric == SPLIT_METRIC;
            if w.accepted && own && w.head_is_split_shard {
                *lo.get_mut(&k).unwrap() += 1;
                *hi.get_mut(&k).unwrap() += 1;
            } else if !own && !w.head_is_split_shard {
                // nothing
            } else {
                *hi.get_mut(&k).unwrap() += 1;
                if !w.accepted {
                    cat_c += 1;
                } else if own {
                    cat_b += 1;
                } else {
                    cat_a += 1;
                }
            }
        }
    }
    let mut ca: BTreeMap<Key, i64> = BTreeMap::new();
    let mut cb: BTreeMap<Key, i64> = BTreeMap::new();
    for r in in_a {
        *ca.entry(key(r)).or_insert(0) += 1;
        shown.entry(key(r)).or_insert_with(|| show(r, split));
        if r.ts >= split {
            let which = if r.ts == split { "row-at-split-point-in-lower-shard" } else { "row-above-split-point-in-lower-shard" };
            out.fails.push(Fail { sig: format!("C15:routing:{which}"), msg: format!("step {step}: lower new shard holds {} (split point = split+0)", show(r, split)) });
        }
    }
    for r in in_b {
        *cb.entry(key(r)).or_insert(0) += 1;
        shown.entry(key(r)).or_insert_with(|| show(r, split));
        if r.ts < split {
            out.fails.push(Fail { sig: "C15:routing:row-below-split-point-in-upper-shard".into(), msg: format!("step {step}: upper new shard holds {}", show(r, split)) });
        }
    }
    let (mut opt_split, mut opt_other) = (0u64, 0u64);
    let keys: Vec<Key> = shown.keys().cloned().collect();
    for k in keys {
        let a = ca.get(&k).copied().unwrap_or(0);
        let b = cb.get(&k).copied().unwrap_or(0);
        let n = a + b;
        let beyond = (n - lo.get(&k).copied().unwrap_or(0)).max(0) as u64;
        if k.1 == SPLIT_METRIC {
            opt_split += beyond;
        } else {
            opt_other += beyond;
        }
        let (l, h) = match (lo.get(&k), hi.get(&k)) {
            (Some(l), Some(h)) => (*l, *h),
            _ => {
                out.fails.push(Fail { sig: "C15:routing:unknown-row-in-new-shard".into(), msg: format!("step {step}: new shards hold {} which no write contained", shown[&k]) });
                continue;
            }
        };
        if n < l {
            out.fails.push(Fail {
                sig: "C15:routing:accepted-row-missing-from-new-shards".into(),
                msg: format!("step {step}: {} was accepted {l} time(s) during DualWrite/Backfill but the new shards hold {n} copies", shown[&k]),
            });
        } else if n > h {
            let sig = if !any_dual {
                "C15:routing:new-shard-chunk-outside-dual-write-phases"
            } else if a > 0 && b > 0 && h <= 1 {
                "C15:routing:row-in-both-new-shards"
            } else {
                "C15:routing:row-written-to-new-shards-too-often"
            };
            out.fails.push(Fail {
                sig: sig.into(),
                msg: format!("step {step}: {} may be in the new shards at most {h} time(s) but lower holds {a} and upper holds {b} copies", shown[&k]),
            });
        }
    }
    if step + 1 == c.script.len() {
        out.stats.lenient_other_metric_in_split_headed_batch += cat_a;
        out.stats.lenient_split_metric_in_foreign_headed_batch += cat_b;
        out.stats.lenient_rows_of_rejected_writes += cat_c;
        out.stats.optional_copies_split_metric += opt_split;
        out.stats.optional_copies_other_metric += opt_other;
        // final check of the script: coverage counters (counted once per case)
        out.stats.rows_to_a += in_a.len() as u64;
        out.stats.rows_to_b += in_b.len() as u64;
        out.stats.rows_at_split_to_b += in_b.iter().filter(|r| r.ts == split).count() as u64;
        if !in_a.is_empty() || !in_b.is_empty() {
            out.stats.dual_writes_done += 1;
        }
    }
}

// ------------------------------------------------------------------------------------------------
// enumeration
// ------------------------------------------------------------------------------------------------

/// all sequences over `alpha` of length 1..=max
fn sequences(alpha: &[R], max: usize) -> Vec<Vec<R>> {
    let mut out: Vec<Vec<R>> = Vec::new();
    let mut level: Vec<Vec<R>> = vec![vec![]];
    for _ in 0..max {
        let mut next = Vec::new();
        for s in &level {
            for a in alpha {
                let mut n = s.clone();
                n.push(*a);
                next.push(n);
            }
        }
        out.extend(next.iter().cloned());
        level = next;
    }
    out
}
/// all multisets (non-decreasing sequences) over `alpha` of size 1..=max
fn multisets(alpha: &[R], max: usize) -> Vec<Vec<R>> {
    sequences(alpha, max).into_iter().filter(|s| s.windows(2).all(|w| w[0] <= w[1])).collect()
}
fn alphabet(dts: &[i8], ms: &[u8], hs: &[u8], vs: &[u8]) -> Vec<R> {
    let mut v = Vec::new();
    for &dt in dts {
        for &m in ms {
            for &h in hs {
                for &vv in vs {
                    v.push(R { dt, m, h, v: vv });
                }
            }
        }
    }
    v
}

/// write histories: every single write of 1..=single_max rows over `single_alpha`, then every pair of
/// writes of 1..=two_max rows each over `two_alpha`
fn hist_set(single_alpha: &[R], single_max: usize, two_alpha: &[R], two_max: usize) -> Vec<Vec<Vec<R>>> {
    let mut h: Vec<Vec<Vec<R>>> = sequences(single_alpha, single_max).into_iter().map(|b| vec![b]).collect();
    let two = sequences(two_alpha, two_max);
    for a in &two {
        for b in &two {
            h.push(vec![a.clone(), b.clone()]);
        }
    }
    h
}

fn routing_cases(tier: &str) -> Vec<Case> {
    let thorough = tier == "thorough";
    let a36 = alphabet(&[-1, 0, 1], &[0, 1], &[0, 1, 2], &[1, 2]);
    let a12 = alphabet(&[-1, 0, 1], &[0, 1], &[0, 1], &[1]);
    let a6 = alphabet(&[-1, 0, 1], &[0, 1], &[0], &[1]);
    let huge = if thorough { hist_set(&a36, 3, &a6, 2) } else { Vec::new() };
    let full = hist_set(&a12, 3, &a12, 1);
    let mid = hist_set(&a12, 2, &a12, 1);
    let small = hist_set(&a6, 2, &a6, 1);
    let mut out = Vec::new();
    let mut push = |split: i64, os: bool, ts_type: bool, ph: Ph, hs: &Vec<Vec<Vec<R>>>| {
        for h in hs {
            let mut script = vec![Op::Phase(ph)];
            script.extend(h.iter().map(|b| Op::Write(b.clone())));
            script.push(Op::Flush);
            script.push(Op::Check);
            let desc_ids = (out.len().wrapping_mul(2654435761) >> 9) & 1 == 1;
            out.push(Case { os, ts_type, split, flush_each: false, reads: false, script, desc_ids });
        }
    };
    // simplest first: in-memory catalog, Int64, main split point, DualWrite
    for split in [S_MAIN, 0] {
        for os in [false, true] {
            for ts_type in [false, true] {
                for ph in [Ph::DualWrite, Ph::Backfill] {
                    // the second split point (0, negative timestamps below it): in-memory catalog only in the quick tier
                    if split == 0 && os && !thorough {
                        continue;
                    }
                    let deepest = !ts_type && if thorough { split == S_MAIN || (!os && ph == Ph::DualWrite) } else { split == S_MAIN && !os && ph == Ph::DualWrite };
                    let hs = if deepest {
                        if thorough { &huge } else { &full }
                    } else if thorough {
                        &full
                    } else {
                        &mid
                    };
                    push(split, os, ts_type, ph, hs);
                }
            }
        }
    }
    for os in [false, true] {
        for ts_type in [false, true] {
            for ph in [Ph::None, Ph::Preparation, Ph::Cutover, Ph::Cleanup, Ph::OtherShardDualWrite] {
                push(S_MAIN, os, ts_type, ph, if thorough { &mid } else { &small });
            }
        }
    }
    out
}

fn reads_cases(tier: &str) -> Vec<Case> {
    let thorough = tier == "thorough";
    // (history, flush_each)
    let mut hists: Vec<(Vec<Vec<R>>, bool)> = Vec::new();
    let cpu = alphabet(&[-1, 0], &[0], &[0, 1, 2], &[1, 2]);
    for b in multisets(&cpu, if thorough { 3 } else { 2 }) {
        hists.push((vec![b], false));
    }
    // mixed metrics: head of the splitting shard followed by another metric, and the other way round
    let r = |dt, m, h, v| R { dt, m, h, v };
    for b in [
        vec![r(0, 0, 0, 1), r(0, 1, 0, 1)],
        vec![r(0, 0, 0, 1), r(0, 1, 1, 2)],
        vec![r(0, 1, 0, 1), r(0, 0, 0, 1)],
        vec![r(0, 1, 0, 1), r(0, 1, 1, 1)],
        vec![r(-1, 1, 0, 1), r(0, 0, 0, 1), r(0, 0, 1, 1)],
    ] {
        hists.push((vec![b], false));
    }
    // two writes, flushed together or separately
    let small = alphabet(&[-1, 0], &[0], &[0, 1], if thorough { &[1, 2] } else { &[1] });
    for a in &small {
        for b in &small {
            for fe in [false, true] {
                hists.push((vec![vec![*a], vec![*b]], fe));
            }
        }
    }
    let mut out = Vec::new();
    for os in [false, true] {
        for ts_type in [false, true] {
            for ph in [Ph::DualWrite, Ph::Backfill, Ph::OtherShardDualWrite, Ph::None, Ph::Preparation] {
                // Timestamp-typed batches are rejected by the dual-write path (counted in the routing sub-space)
                if ts_type && ph.dual() {
                    continue;
                }
                // quick tier: controls on the in-memory catalog / Int64 / no split only; Backfill (the same
                // code path as DualWrite on both sides) on the in-memory catalog only
                if !thorough && ((ph.reads_control() && (os || ts_type || ph != Ph::None)) || (ph == Ph::Backfill && os)) {
                    continue;
                }
                for (h, fe) in &hists {
                    let mut script = vec![Op::Phase(ph)];
                    script.extend(h.iter().map(|b| Op::Write(b.clone())));
                    script.push(Op::Flush);
                    script.push(Op::Check);
                    let desc_ids = (out.len().wrapping_mul(2654435761) >> 9) & 1 == 1;
                    out.push(Case { os, ts_type, split: S_MAIN, flush_each: *fe, reads: true, script, desc_ids });
                }
            }
        }
    }
    out
}

fn lifecycle_cases(tier: &str) -> Vec<Case> {
    let thorough = tier == "thorough";
    let alpha = if thorough { alphabet(&[-1, 0], &[0], &[0, 1], &[1]) } else { vec![R { dt: 0, m: 0, h: 0, v: 1 }, R { dt: -1, m: 0, h: 1, v: 1 }] };
    let mut out = Vec::new();
    for os in [false, true] {
        for real_backfill in [false, true] {
            for fe in [false, true] {
                for w0 in &alpha {
                    for w1 in &alpha {
                        for w2 in &alpha {
                            for w3 in &alpha {
                                if !thorough && w3 != &alpha[0] {
                                    continue;
                                }
                                let script = vec![
                                    Op::Phase(Ph::Preparation),
                                    Op::Write(vec![*w0]),
                                    Op::Phase(Ph::DualWrite),
                                    Op::Write(vec![*w1]),
                                    Op::Flush,
                                    Op::Check,
                                    if real_backfill { Op::RunBackfill } else { Op::Phase(Ph::Backfill) },
                                    Op::Write(vec![*w2]),
                                    Op::Flush,
                                    Op::Check,
                                    Op::Phase(Ph::Cutover),
                                    Op::Write(vec![*w3]),
                                    Op::Flush,
                                    Op::Check,
                                ];
                                let desc_ids = (out.len().wrapping_mul(2654435761) >> 9) & 1 == 1;
                                out.push(Case { os, ts_type: false, split: S_MAIN, flush_each: fe, reads: true, script: script.clone(), desc_ids });
                                // the same split over a shard that already holds data (rows below, at and above the split
                                // point), which the real back-fill copies into the new shards
                                if real_backfill && w0 == &alpha[0] && w3 == &alpha[0] {
                                    let mut s2 = vec![Op::Historical(vec![R { dt: -1, m: 0, h: 0, v: 1 }, R { dt: 0, m: 0, h: 1, v: 2 }, R { dt: 1, m: 0, h: 2, v: 1 }])];
                                    s2.extend(script);
                                    out.push(Case { os, ts_type: false, split: S_MAIN, flush_each: fe, reads: true, script: s2, desc_ids: !desc_ids });
                                }
                            }
                        }
                    }
                }
            }
        }
    }
    out
}

// ------------------------------------------------------------------------------------------------
// parallel driver for the end-to-end sub-spaces
// ------------------------------------------------------------------------------------------------

struct Merged {
    stats: Stats,
    /// sig -> (first case index, msg, case, count)
    fails: BTreeMap<String, (usize, String, Case, u64)>,
    machinery: Vec<String>,
    done: usize,
    nontrivial_cases: u64,
    capped: bool,
}

fn drive(name: &str, cases: &[Case], tier: &str, deadline: std::time::Instant) -> Merged {
    let t0 = std::time::Instant::now();
    let next = AtomicUsize::new(0);
    let capped = AtomicBool::new(false);
    let merged = Mutex::new(Merged { stats: Stats::default(), fails: BTreeMap::new(), machinery: Vec::new(), done: 0, nontrivial_cases: 0, capped: false });
    std::thread::scope(|s| {
        for _ in 0..crate::engine::sched::default_workers() {
            // roomy stacks: DataFusion's planner grows the stack through mmap when little is left, which
            // serialises the workers on the process-wide mapping lock
            std::thread::Builder::new().stack_size(256 << 20).spawn_scoped(s, || {
                let mut local = Stats::default();
                let mut done = 0usize;
                let mut nontrivial = 0u64;
                loop {
                    let i = next.fetch_add(1, Ordering::SeqCst);
                    if i >= cases.len() {
                        break;
                    }
                    if std::time::Instant::now() > deadline {
                        capped.store(true, Ordering::SeqCst);
                        break;
                    }
                    let rt = tokio::runtime::Builder::new_current_thread().enable_all().start_paused(true).build().unwrap();
                    let o = rt.block_on(run_case(&cases[i], tier, false));
                    drop(rt);
                    done += 1;
                    local.add(&o.stats);
                    if o.stats.nontrivial > 0 {
                        nontrivial += 1;
                    }
                    if !o.fails.is_empty() || !o.machinery.is_empty() {
                        let mut g = merged.lock().unwrap();
                        for f in o.fails {
                            let e = g.fails.entry(f.sig.clone()).or_insert((i, f.msg.clone(), cases[i].clone(), 0));
                            e.3 += 1;
                            if i < e.0 {
                                e.0 = i;
                                e.1 = f.msg;
                                e.2 = cases[i].clone();
                            }
                        }
                        for m in o.machinery {
                            if g.machinery.len() < 8 {
                                g.machinery.push(format!("[{name} case {i}] {m}"));
                            }
                        }
                    }
                }
                let mut g = merged.lock().unwrap();
                g.stats.add(&local);
                g.done += done;
                g.nontrivial_cases += nontrivial;
            })
            .expect("spawn worker");
        }
    });
    let mut m = merged.into_inner().unwrap();
    m.capped = capped.load(Ordering::SeqCst);
    println!(
        "  C15 {name}: cases {}/{} writes {} (accepted {}, Timestamp-typed rejected by dual-write {}) dual-written cases {} rows->lower {} rows->upper {} (at split point {}) read checks {} queries {} (copies present {}, of which exact {}; de-dup active without copies {}; control {}) failing sigs {} {:.1}s{}",
        m.done,
        cases.len(),
        m.stats.writes,
        m.stats.accepted,
        m.stats.rejected_dual_timestamp_typed,
        m.stats.dual_writes_done,
        m.stats.rows_to_a,
        m.stats.rows_to_b,
        m.stats.rows_at_split_to_b,
        m.stats.read_checks,
        m.stats.queries,
        m.stats.queries_copies_present,
        m.stats.queries_copies_present_exact,
        m.stats.queries_dedup_active_no_copies,
        m.stats.queries_control,
        m.fails.len(),
        t0.elapsed().as_secs_f64(),
        if m.capped { " CAPPED" } else { "" }
    );
    m
}

// ------------------------------------------------------------------------------------------------
// function level: the de-duplication routine on every bounded input
// ------------------------------------------------------------------------------------------------

/// row of the function-level alphabet: ts {1,2} x metric {a,b} x label {x,y,NULL} x value {1.0,2.0}
fn fn_row(i: usize) -> Row {
    let ts = 1 + (i % 2) as i64;
    let metric = ["a", "b"][(i / 2) % 2].to_string();
    let host = [Some("x"), Some("y"), None][(i / 4) % 3].map(|s| s.to_string());
    let value = 1.0 + ((i / 12) % 2) as f64;
    Row { ts, metric, host, id: -1, value }
}
const FN_ALPHA: usize = 24;

fn rows_of_batches(b: &[RecordBatch]) -> Result<Vec<Row>, String> {
    use arrow_array::cast::AsArray;
    let mut out = Vec::new();
    for b in b {
        let tsc = b.column_by_name("timestamp").ok_or("no timestamp column")?;
        let ts: Vec<i64> = if let Some(a) = tsc.as_primitive_opt::<arrow_array::types::TimestampNanosecondType>() {
            a.values().to_vec()
        } else if let Some(a) = tsc.as_primitive_opt::<arrow_array::types::Int64Type>() {
            a.values().to_vec()
        } else {
            return Err("timestamp type".into());
        };
        let m = arrow::compute::cast(b.column_by_name("metric_name").ok_or("no metric column")?, &DataType::Utf8).map_err(|e| e.to_string())?;
        let m = m.as_string_opt::<i32>().ok_or("metric type")?.clone();
        let h = arrow::compute::cast(b.column_by_name("host").ok_or("no host column")?, &DataType::Utf8).map_err(|e| e.to_string())?;
        let h = h.as_string_opt::<i32>().ok_or("host type")?.clone();
        let v = b.column_by_name("value_f64").ok_or("no value column")?.as_primitive_opt::<arrow_array::types::Float64Type>().ok_or("value type")?.clone();
        for i in 0..b.num_rows() {
            out.push(Row {
                ts: ts[i],
                metric: m.value(i).to_string(),
                host: if h.is_null(i) { None } else { Some(h.value(i).to_string()) },
                id: -1,
                value: v.value(i),
            });
        }
    }
    Ok(out)
}

/// Ok(dropped something) or Err((sig, msg))
fn fn_case(batches: &[Vec<usize>], ts_type: bool, view: bool) -> Result<bool, (String, String)> {
    let input: Vec<Vec<Row>> = batches.iter().map(|b| b.iter().map(|&i| fn_row(i)).collect()).collect();
    let rb: Vec<RecordBatch> = input.iter().map(|r| batch_of_strings(r, ts_type, view)).collect();
    let r = std::panic::catch_unwind(AssertUnwindSafe(|| cardinalsin::query::verif_dedup_batches(rb)));
    let outb = match r {
        Err(_) => return Err(("C15:dedup-fn:panic".into(), "dedup_batches panicked".into())),
        Ok(Err(e)) => return Err(("C15:dedup-fn:error".into(), format!("dedup_batches returned an error: {e}"))),
        Ok(Ok(b)) => b,
    };
    let outr = rows_of_batches(&outb).map_err(|e| ("C15:dedup-fn:output-malformed".to_string(), e))?;
    let all: Vec<Row> = input.iter().flatten().cloned().collect();
    let mut cin: BTreeMap<Key, i64> = BTreeMap::new();
    let mut cout: BTreeMap<Key, i64> = BTreeMap::new();
    for r in &all {
        *cin.entry(key(r)).or_insert(0) += 1;
    }
    for r in &outr {
        *cout.entry(key(r)).or_insert(0) += 1;
    }
    for (k, n) in &cout {
        if *n > cin.get(k).copied().unwrap_or(0) {
            return Err(("C15:dedup-fn:output-not-a-sub-multiset-of-the-input".into(), format!("output holds {k:?} {n} time(s), the input {} time(s)", cin.get(k).copied().unwrap_or(0))));
        }
    }
    // never drops the last copy of a row that differs from every other row in some column
    for (k, _) in &cin {
        if cout.get(k).copied().unwrap_or(0) == 0 {
            let class = if outr.iter().any(|o| o.ts == k.0 && o.metric == k.1) {
                "differs-from-the-kept-row-only-in-label-or-value"
            } else if outr.iter().any(|o| o.ts == k.0) {
                "differs-from-the-kept-rows-in-metric-name"
            } else {
                "differs-from-the-kept-rows-in-timestamp"
            };
            return Err((
                format!("C15:dedup-fn:drops-every-copy-of-a-row:{class}"),
                format!("every copy of (ts {}, {}, {}, {}) was dropped; output rows: {:?}", k.0, k.1, k.2.as_deref().unwrap_or("NULL"), f64::from_bits(k.3), outr.iter().map(|r| (r.ts, r.metric.clone(), r.host.clone(), r.value)).collect::<Vec<_>>()),
            ));
        }
    }
    Ok(outr.len() < all.len())
}

struct FnMerged {
    evaluations: u64,
    dropped_something: u64,
    fails: BTreeMap<String, (Vec<usize>, String, serde_json::Value, u64)>,
}

fn fn_level(tier: &str) -> FnMerged {
    let t0 = std::time::Instant::now();
    let max_rows = if tier == "thorough" { 4 } else { 3 };
    // first-level partition: the first row (or the empty input)
    let merged = Mutex::new(FnMerged { evaluations: 0, dropped_something: 0, fails: BTreeMap::new() });
    let next = AtomicUsize::new(0);
    std::thread::scope(|s| {
        for _ in 0..crate::engine::sched::default_workers() {
            s.spawn(|| {
                let mut evals = 0u64;
                let mut dropped = 0u64;
                let mut fails: BTreeMap<String, (Vec<usize>, String, serde_json::Value, u64)> = BTreeMap::new();
                loop {
                    let first = next.fetch_add(1, Ordering::SeqCst);
                    if first > FN_ALPHA {
                        break;
                    }
                    // first == FN_ALPHA stands for the empty sequence
                    let mut stack: Vec<Vec<usize>> = vec![if first == FN_ALPHA { vec![] } else { vec![first] }];
                    while let Some(seq) = stack.pop() {
                        // every way to cut the sequence into one batch or two consecutive batches (either may be empty)
                        let mut shapes: Vec<Vec<Vec<usize>>> = vec![vec![seq.clone()]];
                        for cut in 0..=seq.len() {
                            shapes.push(vec![seq[..cut].to_vec(), seq[cut..].to_vec()]);
                        }
                        if seq.is_empty() {
                            shapes.push(vec![]);
                        }
                        for shape in shapes {
                            for (ts_type, view) in [(false, false), (true, false), (false, true), (true, true)] {
                                evals += 1;
                                match fn_case(&shape, ts_type, view) {
                                    Ok(d) => {
                                        if d {
                                            dropped += 1;
                                        }
                                    }
                                    Err((sig, msg)) => {
                                        let order: Vec<usize> = std::iter::once(seq.len()).chain(seq.iter().copied()).collect();
                                        let rp = json!({"kind": "dedup-fn", "batches": shape, "ts_type": ts_type, "view": view});
                                        let e = fails.entry(sig).or_insert((order.clone(), msg.clone(), rp.clone(), 0));
                                        e.3 += 1;
                                        if order < e.0 {
                                            *e = (order, msg, rp, e.3);
                                        }
                                    }
                                }
                            }
                        }
                        if !seq.is_empty() && seq.len() < max_rows {
                            for a in (0..FN_ALPHA).rev() {
                                let mut n = seq.clone();
                                n.push(a);
                                stack.push(n);
                            }
                        }
                    }
                }
                let mut g = merged.lock().unwrap();
                g.evaluations += evals;
                g.dropped_something += dropped;
                for (sig, (order, msg, rp, n)) in fails {
                    let e = g.fails.entry(sig).or_insert((order.clone(), msg.clone(), rp.clone(), 0));
                    e.3 += n;
                    if order < e.0 {
                        e.0 = order;
                        e.1 = msg;
                        e.2 = rp;
                    }
                }
            });
        }
    });
    let m = merged.into_inner().unwrap();
    println!(
        "  C15 dedup-fn: inputs {} (<= {max_rows} rows over {FN_ALPHA} row values, cut into <= 2 batches, Int64/Timestamp x Utf8/Utf8View columns) inputs with something dropped {} failing sigs {} {:.1}s",
        m.evaluations,
        m.dropped_something,
        m.fails.len(),
        t0.elapsed().as_secs_f64()
    );
    m
}

// ------------------------------------------------------------------------------------------------
// entry points
// ------------------------------------------------------------------------------------------------

pub fn run(tier: &str) -> i32 {
    let mut rep = Report::new("C15", tier, "exploration");
    rep.assume("a batch belongs to the shard the ingester derives from its first row (tenant, metric name, 5-minute bucket); rows of the splitting metric inside a batch headed by another metric, rows of another metric inside a batch of the splitting shard, and rows of rejected writes may be dual-written or not (zero or one copy, on the correct side) - the property does not say which shard such rows belong to");
    rep.assume("a write that returns an error is not 'accepted': Timestamp(ns)-typed batches are rejected by the dual-write path (`Timestamp not Int64`) after having been appended to the old shard's buffer; this is counted (rejected_dual_timestamp_typed) but not judged, and reads are not judged for histories that contain a rejected write");
    rep.assume("reads are judged after a flush (rows still in the ingester's buffer are invisible to queries with or without a split), in DualWrite, in Backfill and while a different shard is in DualWrite; after Cutover the property is silent");
    rep.assume("DataFusion is the trusted evaluator and also the reference (same SQL over a MemTable holding each accepted row once); 'both reject the statement' counts as agreement; results are compared as multisets of rendered rows");
    rep.assume("every query carries the window form `timestamp >= lo AND timestamp <= hi` with plain literals (or no WHERE clause: the default last-hour window, which holds every row), the form C04 found to be extracted exactly; the first statement on a fresh query node is the no-WHERE count (a fresh node plans against the built-in default schema, a C04 matter)");
    rep.assume("the in-memory object store, the Parquet encoder/decoder and arrow kernels are trusted; the wall clock is frozen at 2025-06-01T12:00:00Z, entropy is the interposed deterministic stream");
    rep.assume("function level (calibrated below the end-to-end claim): the de-duplication routine must return a sub-multiset of its input and keep at least one copy of every distinct (timestamp, metric, label, value) row");

    let budget = std::time::Duration::from_secs(if tier == "thorough" { 1380 } else { 50 });
    let deadline = std::time::Instant::now() + budget;

    let mut total = Stats::default();
    let mut evaluations = 0u64;
    let mut nontrivial = 0u64;
    let mut capped = false;
    let mut sub = Vec::new();
    let spaces: Vec<(&str, Vec<Case>)> = vec![("routing", routing_cases(tier)), ("reads", reads_cases(tier)), ("lifecycle", lifecycle_cases(tier))];
    let mut sampled = 0;
    let only = std::env::var("VERIF_C15_ONLY").ok();
    for (name, cases) in &spaces {
        if only.as_deref().map(|o| o != *name).unwrap_or(false) {
            continue;
        }
        let m = drive(name, cases, tier, deadline);
        evaluations += m.done as u64;
        nontrivial += m.nontrivial_cases;
        capped |= m.capped;
        total.add(&m.stats);
        sub.push(json!({
            "sub_space": name, "cases": cases.len(), "cases_run": m.done, "capped": m.capped,
            "writes": m.stats.writes, "accepted": m.stats.accepted,
            "rejected_dual_timestamp_typed": m.stats.rejected_dual_timestamp_typed,
            "cases_with_new_shard_chunks": m.stats.dual_writes_done,
            "rows_to_lower": m.stats.rows_to_a, "rows_to_upper": m.stats.rows_to_b, "rows_at_split_point_to_upper": m.stats.rows_at_split_to_b,
            "rows_the_property_is_silent_about": {
                "other_metric_in_a_batch_of_the_splitting_shard": m.stats.lenient_other_metric_in_split_headed_batch,
                "splitting_metric_in_a_batch_headed_by_another_shard": m.stats.lenient_split_metric_in_foreign_headed_batch,
                "rows_of_rejected_writes": m.stats.lenient_rows_of_rejected_writes,
                "optional_copies_found_for_rows_of_the_splitting_metric": m.stats.optional_copies_split_metric,
                "optional_copies_found_for_rows_of_other_metrics": m.stats.optional_copies_other_metric,
            },
            "backfill_chunks_seen": m.stats.backfill_chunks,
            "read_checks": m.stats.read_checks, "read_checks_skipped_rejected_write": m.stats.read_checks_skipped_rejected,
            "queries": m.stats.queries, "queries_control_phases": m.stats.queries_control,
            "queries_with_double_written_copies_present": m.stats.queries_copies_present,
            "queries_with_copies_present_answered_exactly": m.stats.queries_copies_present_exact,
            "queries_dedup_active_without_copies": m.stats.queries_dedup_active_no_copies,
            "both_error": m.stats.both_error,
        }));
        for msg in &m.machinery {
            rep.machinery(msg.clone());
        }
        if sampled < 4 {
            if let Some(c) = cases.first() {
                rep.push_sample(json!({"sub_space": name, "case": c}));
                sampled += 1;
            }
            if let Some(c) = cases.get(cases.len() / 2) {
                rep.push_sample(json!({"sub_space": name, "case": c}));
            }
        }
        let routing_failed = m.fails.keys().any(|s| s.starts_with("C15:routing:"));
        for (sig, (_i, msg, case, n)) in m.fails {
            rep.violation_n(&sig, &msg, json!({"kind": "case", "tier": tier, "case": case}), n);
        }
        // vacuity guards per sub-space (a guard that fires *because of* a reported routing violation is
        // not a harness problem: the violation is the verdict)
        match *name {
            "routing" if routing_failed || m.capped => {}
            "routing" => {
                if m.stats.rows_to_a == 0 || m.stats.rows_to_b == 0 || m.stats.rows_at_split_to_b == 0 {
                    rep.machinery(format!("vacuity guard (routing): rows to lower {} / upper {} / at the split point to upper {}", m.stats.rows_to_a, m.stats.rows_to_b, m.stats.rows_at_split_to_b));
                }
            }
            "reads" | "lifecycle" if routing_failed || m.capped => {}
            "reads" | "lifecycle" => {
                if m.stats.queries_copies_present == 0 {
                    rep.machinery(format!("vacuity guard ({name}): no query ran while double-written copies were present"));
                }
                if *name == "lifecycle" && m.stats.backfill_chunks == 0 {
                    rep.machinery("vacuity guard (lifecycle): the real back-fill never copied a chunk into the new shards");
                }
                if *name == "reads" && m.stats.queries_control == 0 {
                    rep.machinery("vacuity guard (reads): no control query ran");
                }
            }
            _ => {}
        }
    }
    let f = fn_level(tier);
    evaluations += f.evaluations;
    nontrivial += f.dropped_something;
    // Since the repair of the read half (chunks of not-yet-cut-over new shards are left out of the selection, nothing
    // is de-duplicated any more) the routine is not on any query path: what it does to its inputs is an observation,
    // not a verdict. If a change puts it back on the query path, the reads / lifecycle spaces judge the effect.
    let observed: Vec<serde_json::Value> = f.fails.iter().map(|(sig, (_o, msg, _rp, n))| json!({"would_be": sig, "inputs": n, "example": msg.lines().next().unwrap_or("")})).collect();
    sub.push(json!({"sub_space": "dedup-fn (observation only: the routine is no longer called by the query path)", "inputs": f.evaluations, "inputs_with_a_row_dropped": f.dropped_something, "observed": observed}));
    rep.push_sample(json!({"sub_space": "dedup-fn", "batches": [[0, 4], [0]], "row_alphabet": "index i -> ts 1+i%2, metric [a,b][(i/2)%2], label [x,y,NULL][(i/4)%3], value 1+(i/12)%2"}));

    rep.set("evaluations", evaluations);
    rep.set("distinct_nontrivial", nontrivial);
    rep.set("sub_spaces", json!(sub));
    rep.set("queries_evaluated", total.queries);
    rep.set("rule", "routing: every {catalog back end} x {Int64, Timestamp(ns)} x {split point} x {no split, Preparation, DualWrite, Backfill, Cutover, Cleanup, other shard in DualWrite} x {write history: all row sequences up to the bound over ts {split-1, split, split+1} x metric {cpu (splitting), mem} x host x value, incl. exact duplicates and mixed-metric batches; one or two writes} -> real Ingester::write, then the chunks registered under shard=<new lower>/<new upper> are decoded and compared with the accepted rows. reads: the same plus a flush, then every query of the family (row selections, projections, count/sum/min/max/avg, GROUP BY, label/value/split-point predicates) through QueryNode::query vs. the same SQL over a MemTable with each accepted row once. lifecycle: one split walked through Preparation/DualWrite/Backfill (phase update or real run_backfill)/Cutover with a write in each. dedup-fn: every input of bounded size to the de-duplication routine. A case counts as non-trivial when new-shard chunks were actually written (routing), when a judged query ran whose answer the double-written copies change, i.e. suppression was needed (reads, lifecycle), or when the routine dropped a row (dedup-fn)");
    rep.set("bounds", json!({
        "tier": tier,
        "routing": if tier == "thorough" { "single write: <=3 rows over 36 row values; two writes: <=2 rows each over 12 row values" } else { "single write: <=3 rows over 12 row values; two writes: 1 row each" },
        "reads": if tier == "thorough" { "single write: multisets <=3 rows over 12 cpu row values + 5 mixed-metric batches; two single-row writes over 8 values, flushed together or separately; 19 queries" } else { "single write: multisets <=2 rows over 12 cpu row values + 5 mixed-metric batches; two single-row writes over 4 values, flushed together or separately; 11 queries" },
        "lifecycle": "4 single-row writes (one per phase)",
        "dedup_fn_rows": if tier == "thorough" { 4 } else { 3 },
    }));
    if let Some(o) = &only {
        // development knob: a run restricted to one end-to-end sub-space is never a full verdict
        rep.set("exhaustive", false);
        rep.machinery(format!("VERIF_C15_ONLY={o} is set: only that end-to-end sub-space was run"));
    }
    if capped {
        rep.set("exhaustive", false);
        rep.set("exhaustive_note", "the time budget cut a sub-space short; see sub_spaces[].cases_run");
    }
    rep.finish()
}

pub fn replay(v: &serde_json::Value) -> i32 {
    match v["kind"].as_str() {
        Some("dedup-fn") => {
            let batches: Vec<Vec<usize>> = serde_json::from_value(v["batches"].clone()).expect("batches");
            let ts_type = v["ts_type"].as_bool().unwrap_or(false);
            let view = v["view"].as_bool().unwrap_or(false);
            println!("timestamp column: {}, string columns: {}", if ts_type { "Timestamp(ns, UTC)" } else { "Int64" }, if view { "Utf8View" } else { "Utf8" });
            for (i, b) in batches.iter().enumerate() {
                println!("batch {i}: {:?}", b.iter().map(|&i| { let r = fn_row(i); (r.ts, r.metric, r.host, r.value) }).collect::<Vec<_>>());
            }
            match fn_case(&batches, ts_type, view) {
                Ok(d) => {
                    println!("no violation (dropped something: {d})");
                    0
                }
                Err((sig, msg)) => {
                    println!("violation [{sig}]: {msg}");
                    1
                }
            }
        }
        Some("case") => {
            let case: Case = serde_json::from_value(v["case"].clone()).expect("case");
            let tier = v["tier"].as_str().unwrap_or("quick").to_string();
            println!("case: {}", serde_json::to_string(&case).unwrap());
            let rt = tokio::runtime::Builder::new_current_thread().enable_all().start_paused(true).build().unwrap();
            let o = rt.block_on(run_case(&case, &tier, true));
            for l in &o.log {
                println!("{l}");
            }
            for m in &o.machinery {
                println!("MACHINERY: {m}");
            }
            for f in &o.fails {
                println!("violation [{}]: {}", f.sig, f.msg);
            }
            if !o.machinery.is_empty() {
                2
            } else if o.fails.is_empty() {
                println!("no violation on this case");
                0
            } else {
                1
            }
        }
        _ => {
            eprintln!("MACHINERY: unknown replay kind");
            2
        }
    }
}
