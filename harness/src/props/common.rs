//! Helpers shared by the property harnesses.

use bytes::Bytes;
use cardinalsin::ingester::ChunkMetadata;
use cardinalsin::metadata::{MetadataCatalog, ObjectStoreMetadataClient, ObjectStoreMetadataConfig};
use object_store::memory::InMemory;
use object_store::ObjectStore;
use std::collections::BTreeMap;
use std::sync::Arc;

pub const HOUR: i64 = 3_600_000_000_000;
pub const CATALOG: &str = "metadata%2F/catalog.json";
pub const LEASES: &str = "metadata%2F/compaction-leases.json";
pub const SPLIT_STATES: &str = "metadata%2F/split-states.json";

pub fn hour_bucket(ts: i64) -> i64 {
    (ts / HOUR) * HOUR
}

pub fn chunk_meta(path: &str, min: i64, max: i64) -> ChunkMetadata {
    ChunkMetadata { path: path.to_string(), min_timestamp: min, max_timestamp: max, row_count: 10, size_bytes: 1000 }
}

pub fn new_mem() -> Arc<dyn ObjectStore> {
    Arc::new(InMemory::new())
}

pub fn os_client(store: Arc<dyn ObjectStore>) -> ObjectStoreMetadataClient {
    ObjectStoreMetadataClient::new(store, ObjectStoreMetadataConfig::default())
}

pub fn parse_catalog(b: &[u8]) -> Result<MetadataCatalog, String> {
    serde_json::from_slice(b).map_err(|e| format!("catalog.json does not parse: {e}"))
}

/// path -> (min, max, level) view of a catalog
pub fn catalog_view(c: &MetadataCatalog) -> BTreeMap<String, (i64, i64, u32)> {
    c.chunks
        .iter()
        .map(|(p, e)| (p.clone(), (e.base.min_timestamp, e.base.max_timestamp, e.level)))
        .collect()
}

/// Self-consistency of one catalog version: the set of paths in the time index equals the chunk map's
/// key set, and every chunk is listed under every hour bucket from bucket(min) to bucket(max).
pub fn catalog_consistent(c: &MetadataCatalog) -> Result<(), String> {
    let mut indexed = std::collections::BTreeSet::new();
    for (b, paths) in &c.time_index {
        for p in paths {
            indexed.insert(p.clone());
            match c.chunks.get(p) {
                None => return Err(format!("time index bucket {b} lists {p}, which is not in the chunk map")),
                Some(_) => {}
            }
        }
    }
    for (p, e) in &c.chunks {
        if !indexed.contains(p) {
            return Err(format!("chunk {p} is in the chunk map but in no time-index bucket"));
        }
        let mut b = hour_bucket(e.base.min_timestamp);
        let end = hour_bucket(e.base.max_timestamp);
        while b <= end {
            let ok = c.time_index.get(&b).map(|v| v.iter().any(|x| x == p)).unwrap_or(false);
            if !ok {
                return Err(format!("chunk {p} [{},{}] is not listed under bucket {b}", e.base.min_timestamp, e.base.max_timestamp));
            }
            b += HOUR;
        }
    }
    Ok(())
}

/// Canonical JSON text (object keys sorted recursively) for fingerprints.
pub fn canon_json(b: &[u8]) -> String {
    fn canon(v: &serde_json::Value) -> serde_json::Value {
        match v {
            serde_json::Value::Object(m) => {
                let mut bm = BTreeMap::new();
                for (k, v) in m {
                    bm.insert(k.clone(), canon(v));
                }
                serde_json::Value::Object(bm.into_iter().collect())
            }
            serde_json::Value::Array(a) => serde_json::Value::Array(a.iter().map(canon).collect()),
            o => o.clone(),
        }
    }
    match serde_json::from_slice::<serde_json::Value>(b) {
        Ok(v) => canon(&v).to_string(),
        Err(_) => format!("raw:{}", String::from_utf8_lossy(b)),
    }
}

/// Synchronous image of an `InMemory` store for fingerprints: (path, etag, canonical content).
pub async fn store_image(store: &Arc<dyn ObjectStore>) -> Vec<(String, String, String)> {
    use futures::StreamExt;
    let mut out = Vec::new();
    let metas: Vec<_> = store.list(None).collect().await;
    for m in metas.into_iter().flatten() {
        let body = match store.get(&m.location).await {
            Ok(r) => r.bytes().await.unwrap_or_default(),
            Err(_) => Bytes::new(),
        };
        let content = if m.location.as_ref().ends_with(".json") {
            canon_json(&body)
        } else {
            format!("{}b#{:x}", body.len(), hash_bytes(&body))
        };
        out.push((m.location.to_string(), m.e_tag.unwrap_or_default(), content));
    }
    out.sort();
    out
}

pub fn hash_bytes(b: &[u8]) -> u64 {
    use std::hash::{Hash, Hasher};
    let mut h = std::collections::hash_map::DefaultHasher::new();
    b.hash(&mut h);
    h.finish()
}

pub fn hash_of<T: std::hash::Hash>(t: &T) -> u64 {
    use std::hash::{Hash, Hasher};
    let mut h = std::collections::hash_map::DefaultHasher::new();
    t.hash(&mut h);
    h.finish()
}

/// Poll a future that only touches an `InMemory` store (never pending in practice) to completion
/// without a runtime: used by synchronous fingerprint functions.
pub fn now_or_never<F: std::future::Future>(f: F) -> F::Output {
    futures::FutureExt::now_or_never(f).expect("future was expected to complete without waiting")
}

// ------------------------------------------------------------------------------------------------
// Parquet chunks whose rows carry unique ids
// ------------------------------------------------------------------------------------------------

use arrow_array::{Array, Float64Array, Int64Array, RecordBatch, StringArray, TimestampNanosecondArray};
use arrow_schema::{DataType, Field, Schema, TimeUnit};

#[derive(Debug, Clone, PartialEq)]
pub struct Row {
    pub ts: i64,
    pub metric: String,
    pub host: Option<String>,
    pub id: i64,
    pub value: f64,
}

/// `ts_type`: false = Int64 timestamp column, true = Timestamp(ns, UTC)
pub fn rows_to_batch(rows: &[Row], ts_type: bool) -> RecordBatch {
    rows_to_batch_label(rows, ts_type, "host")
}

/// the same batch with the label column under another name (a client with another label set)
pub fn rows_to_batch_label(rows: &[Row], ts_type: bool, label: &str) -> RecordBatch {
    let ts_field = if ts_type {
        Field::new("timestamp", DataType::Timestamp(TimeUnit::Nanosecond, Some("UTC".into())), false)
    } else {
        Field::new("timestamp", DataType::Int64, false)
    };
    let schema = Arc::new(Schema::new(vec![
        ts_field,
        Field::new("metric_name", DataType::Utf8, false),
        Field::new(label, DataType::Utf8, true),
        Field::new("id", DataType::Int64, false),
        Field::new("value_f64", DataType::Float64, true),
    ]));
    let ts: Vec<i64> = rows.iter().map(|r| r.ts).collect();
    let ts_arr: Arc<dyn Array> = if ts_type {
        Arc::new(TimestampNanosecondArray::from(ts).with_timezone("UTC"))
    } else {
        Arc::new(Int64Array::from(ts))
    };
    RecordBatch::try_new(
        schema,
        vec![
            ts_arr,
            Arc::new(StringArray::from(rows.iter().map(|r| r.metric.clone()).collect::<Vec<_>>())),
            Arc::new(StringArray::from(rows.iter().map(|r| r.host.clone()).collect::<Vec<_>>())),
            Arc::new(Int64Array::from(rows.iter().map(|r| r.id).collect::<Vec<_>>())),
            Arc::new(Float64Array::from(rows.iter().map(|r| r.value).collect::<Vec<_>>())),
        ],
    )
    .expect("batch")
}

pub fn row(ts: i64, id: i64) -> Row {
    Row { ts, metric: "cpu".into(), host: Some("a".into()), id, value: id as f64 }
}

pub fn encode_parquet(batch: &RecordBatch) -> Bytes {
    cardinalsin::ingester::ParquetWriter::new().write_batch(batch).expect("parquet encode")
}

/// Decode the rows of a Parquet object (any of the schemas used by the harnesses).
pub fn decode_rows(data: Bytes) -> Result<Vec<Row>, String> {
    use arrow_array::cast::AsArray;
    let reader = parquet::arrow::arrow_reader::ParquetRecordBatchReaderBuilder::try_new(data)
        .map_err(|e| e.to_string())?
        .build()
        .map_err(|e| e.to_string())?;
    let mut out = Vec::new();
    for b in reader {
        let b = b.map_err(|e| e.to_string())?;
        let tsc = b.column_by_name("timestamp").ok_or("no timestamp column")?;
        let ts: Vec<i64> = if let Some(a) = tsc.as_primitive_opt::<arrow_array::types::TimestampNanosecondType>() {
            a.values().to_vec()
        } else if let Some(a) = tsc.as_primitive_opt::<arrow_array::types::Int64Type>() {
            a.values().to_vec()
        } else {
            return Err(format!("timestamp type {:?}", tsc.data_type()));
        };
        let strcol = |name: &str| -> Vec<Option<String>> {
            match b.column_by_name(name) {
                None => vec![None; b.num_rows()],
                Some(c) => {
                    let c = arrow::compute::cast(c, &DataType::Utf8).expect("cast to utf8");
                    let a = c.as_string::<i32>();
                    (0..a.len()).map(|i| if a.is_null(i) { None } else { Some(a.value(i).to_string()) }).collect()
                }
            }
        };
        let metric = strcol("metric_name");
        let host = strcol("host");
        let ids: Vec<i64> = b
            .column_by_name("id")
            .and_then(|c| c.as_primitive_opt::<arrow_array::types::Int64Type>().map(|a| a.values().to_vec()))
            .unwrap_or_else(|| vec![-1; b.num_rows()]);
        let vals: Vec<f64> = b
            .column_by_name("value_f64")
            .and_then(|c| c.as_primitive_opt::<arrow_array::types::Float64Type>().map(|a| (0..a.len()).map(|i| if a.is_null(i) { f64::NAN } else { a.value(i) }).collect()))
            .unwrap_or_else(|| vec![f64::NAN; b.num_rows()]);
        for i in 0..b.num_rows() {
            out.push(Row { ts: ts[i], metric: metric[i].clone().unwrap_or_default(), host: host[i].clone(), id: ids[i], value: vals[i] });
        }
    }
    Ok(out)
}

/// Upload `rows` as one Parquet chunk under `path` and register it (through `meta`).
pub async fn put_chunk(
    store: &Arc<dyn ObjectStore>,
    meta: &dyn cardinalsin::metadata::MetadataClient,
    path: &str,
    rows: &[Row],
    ts_type: bool,
) -> ChunkMetadata {
    let bytes = encode_parquet(&rows_to_batch(rows, ts_type));
    let size = bytes.len() as u64;
    store.put(&object_store::path::Path::from(path), bytes.into()).await.expect("put chunk");
    let m = ChunkMetadata {
        path: path.to_string(),
        min_timestamp: rows.iter().map(|r| r.ts).min().unwrap_or(0),
        max_timestamp: rows.iter().map(|r| r.ts).max().unwrap_or(0),
        row_count: rows.len() as u64,
        size_bytes: size,
    };
    meta.register_chunk(path, &m).await.expect("register chunk");
    m
}

/// ids reachable through a list of chunk paths (raw store reads); Err(path) if an object is missing
pub async fn reachable_ids(store: &Arc<dyn ObjectStore>, paths: &[String], cache: &mut BTreeMap<String, Vec<i64>>) -> Result<Vec<i64>, String> {
    let mut ids = Vec::new();
    for p in paths {
        if let Some(v) = cache.get(p) {
            ids.extend(v.iter().copied());
            continue;
        }
        let data = match store.get(&object_store::path::Path::from(p.as_str())).await {
            Ok(r) => r.bytes().await.map_err(|e| e.to_string())?,
            Err(_) => return Err(p.clone()),
        };
        let rows = decode_rows(data)?;
        let v: Vec<i64> = rows.iter().map(|r| r.id).collect();
        cache.insert(p.clone(), v.clone());
        ids.extend(v);
    }
    ids.sort();
    Ok(ids)
}

/// Raise the registered chunk `path` to compaction level `level` through the real API
/// (level = max(level of sources) + 1): a chain of throw-away source entries is compacted into it.
pub async fn promote_to_level(meta: &dyn cardinalsin::metadata::MetadataClient, path: &str, level: u32) {
    if level == 0 {
        return;
    }
    let d = |k: u32| format!("tmp/promote/{}_{k}", path.replace('/', "_"));
    meta.register_chunk(&d(0), &chunk_meta(&d(0), 0, 0)).await.expect("dummy");
    for k in 1..level {
        meta.register_chunk(&d(k), &chunk_meta(&d(k), 0, 0)).await.expect("dummy");
        meta.complete_compaction(&[d(k - 1)], &d(k)).await.expect("promote dummy");
    }
    meta.complete_compaction(&[d(level - 1)], path).await.expect("promote");
}

/// Every row of every listed chunk must be found by a point lookup of its own timestamp through the catalog's
/// time index (`get_chunks([ts, ts])` returns the chunk that holds it). Returns Err((path, id, ts, answer)).
pub async fn rows_found_by_time(
    store: &Arc<dyn ObjectStore>,
    meta: &dyn cardinalsin::metadata::MetadataClient,
    paths: &[String],
    cache: &mut BTreeMap<String, Vec<(i64, i64)>>,
) -> Result<u64, (String, i64, i64, Vec<String>)> {
    let mut lookups = 0u64;
    for p in paths {
        if !cache.contains_key(p) {
            let rows = match store.get(&object_store::path::Path::from(p.as_str())).await {
                Ok(r) => decode_rows(r.bytes().await.unwrap_or_default()).unwrap_or_default(),
                Err(_) => Vec::new(),
            };
            cache.insert(p.clone(), rows.iter().map(|r| (r.id, r.ts)).collect());
        }
        let rows = cache.get(p).cloned().unwrap_or_default();
        // distinct timestamps are enough: first and last row plus every hour-boundary neighbour
        let mut tss: Vec<(i64, i64)> = rows.clone();
        tss.dedup_by_key(|r| r.1);
        for (id, ts) in tss {
            lookups += 1;
            let got: Vec<String> = meta
                .get_chunks(cardinalsin::metadata::TimeRange::new(ts, ts))
                .await
                .map(|v| v.into_iter().map(|e| e.chunk_path).collect())
                .unwrap_or_default();
            if !got.contains(p) {
                return Err((p.clone(), id, ts, got));
            }
        }
    }
    Ok(lookups)
}

/// every row of a Parquet object as "col=value" pairs of its non-null columns (timestamps as integer nanoseconds)
pub fn whole_rows(data: Bytes) -> Result<Vec<String>, String> {
    let reader = parquet::arrow::arrow_reader::ParquetRecordBatchReaderBuilder::try_new(data).map_err(|e| e.to_string())?.build().map_err(|e| e.to_string())?;
    let mut out = Vec::new();
    for b in reader {
        out.extend(whole_rows_of_batch(&b.map_err(|e| e.to_string())?)?);
    }
    Ok(out)
}

/// the same rendering straight from an Arrow batch (no Parquet round trip)
pub fn whole_rows_of_batch(b: &RecordBatch) -> Result<Vec<String>, String> {
    use arrow_array::cast::AsArray;
    let mut out = Vec::new();
    let schema = b.schema();
    for r in 0..b.num_rows() {
        let mut kv: Vec<String> = Vec::new();
        for (c, f) in schema.fields().iter().enumerate() {
            let a = b.column(c);
            if a.is_null(r) {
                continue;
            }
            let v = match f.data_type() {
                DataType::Timestamp(TimeUnit::Nanosecond, _) => a.as_primitive::<arrow_array::types::TimestampNanosecondType>().value(r).to_string(),
                DataType::Float64 => format!("{:?}/{:016x}", a.as_primitive::<arrow_array::types::Float64Type>().value(r), a.as_primitive::<arrow_array::types::Float64Type>().value(r).to_bits()),
                _ => arrow::util::display::array_value_to_string(a, r).map_err(|e| e.to_string())?,
            };
            kv.push(format!("{}={}", f.name(), v));
        }
        kv.sort();
        out.push(kv.join(","));
    }
    Ok(out)
}
