//! Helpers shared by the property harnesses.

use bytes::Bytes;
use cardinalsin::ingester::ChunkMetadata;
use cardinalsin::metadata::{MetadataCatalog, ObjectStoreMetadataClient, ObjectStoreMetadataConfig};
use object_store::memory::InMemory;
use object_store::ObjectStore;
use std::collections::BTreeMap;
use std::sync::Arc;

pub const HOUR: i64 = 3_600_000_000_000;
pub const CATALOG: &str = "metadata%2F/catalog.json";
pub const LEASES: &str = "metadata%2F/compaction-leases.json";
pub const SPLIT_STATES: &str = "metadata%2F/split-states.json";

pub fn hour_bucket(ts: i64) -> i64 {
    (ts / HOUR) * HOUR
}

pub fn chunk_meta(path: &str, min: i64, max: i64) -> ChunkMetadata {
    ChunkMetadata { path: path.to_string(), min_timestamp: min, max_timestamp: max, row_count: 10, size_bytes: 1000 }
}

pub fn new_mem() -> Arc<dyn ObjectStore> {
    Arc::new(InMemory::new())
}

pub fn os_client(store: Arc<dyn ObjectStore>) -> ObjectStoreMetadataClient {
    ObjectStoreMetadataClient::new(store, ObjectStoreMetadataConfig::default())
}

pub fn parse_catalog(b: &[u8]) -> Result<MetadataCatalog, String> {
    serde_json::from_slice(b).map_err(|e| format!("catalog.json does not parse: {e}"))
}

/// path -> (min, max, level) view of a catalog
pub fn catalog_view(c: &MetadataCatalog) -> BTreeMap<String, (i64, i64, u32)> {
    c.chunks
        .iter()
        .map(|(p, e)| (p.clone(), (e.base.min_timestamp, e.base.max_timestamp, e.level)))
        .collect()
}

/// Self-consistency of one catalog version: the set of paths in the time index equals the chunk map's
/// key set, and every chunk is listed under every hour bucket from bucket(min) to bucket(max).
pub fn catalog_consistent(c: &MetadataCatalog) -> Result<(), String> {
    let mut indexed = std::collections::BTreeSet::new();
    for (b, paths) in &c.time_index {
        for p in paths {
            indexed.insert(p.clone());
            match c.chunks.get(p) {
                None => return Err(format!("time index bucket {b} lists {p}, which is not in the chunk map")),
                Some(_) => {}
            }
        }
    }
    for (p, e) in &c.chunks {
        if !indexed.contains(p) {
            return Err(format!("chunk {p} is in the chunk map but in no time-index bucket"));
        }
        let mut b = hour_bucket(e.base.min_timestamp);
        let end = hour_bucket(e.base.max_timestamp);
        while b <= end {
            let ok = c.time_index.get(&b).map(|v| v.iter().any(|x| x == p)).unwrap_or(false);
            if !ok {
                return Err(format!("chunk {p} [{},{}] is not listed under bucket {b}", e.base.min_timestamp, e.base.max_timestamp));
            }
            b += HOUR;
        }
    }
    Ok(())
}

/// Canonical JSON text (object keys sorted recursively) for fingerprints.
pub fn canon_json(b: &[u8]) -> String {
    fn canon(v: &serde_json::Value) -> serde_json::Value {
        match v {
            serde_json::Value::Object(m) => {
                let mut bm = BTreeMap::new();
                for (k, v) in m {
                    bm.insert(k.clone(), canon(v));
                }
                serde_json::Value::Object(bm.into_iter().collect())
            }
            serde_json::Value::Array(a) => serde_json::Value::Array(a.iter().map(canon).collect()),
            o => o.clone(),
        }
    }
    match serde_json::from_slice::<serde_json::Value>(b) {
        Ok(v) => canon(&v).to_string(),
        Err(_) => format!("raw:{}", String::from_utf8_lossy(b)),
    }
}

/// Synchronous image of an `InMemory` store for fingerprints: (path, etag, canonical content).
pub async fn store_image(store: &Arc<dyn ObjectStore>) -> Vec<(String, String, String)> {
    use futures::StreamExt;
    let mut out = Vec::new();
    let metas: Vec<_> = store.list(None).collect().await;
    for m in metas.into_iter().flatten() {
        let body = match store.get(&m.location).await {
            Ok(r) => r.bytes().await.unwrap_or_default(),
            Err(_) => Bytes::new(),
        };
        let content = if m.location.as_ref().ends_with(".json") {
            canon_json(&body)
        } else {
            format!("{}b#{:x}", body.len(), hash_bytes(&body))
        };
        out.push((m.location.to_string(), m.e_tag.unwrap_or_default(), content));
    }
    out.sort();
    out
}

pub fn hash_bytes(b: &[u8]) -> u64 {
    use std::hash::{Hash, Hasher};
    let mut h = std::collections::hash_map::DefaultHasher::new();
    b.hash(&mut h);
    h.finish()
}

pub fn hash_of<T: std::hash::Hash>(t: &T) -> u64 {
    use std::hash::{Hash, Hasher};
    let mut h = std::collections::hash_map::DefaultHasher::new();
    t.hash(&mut h);
    h.finish()
}

/// Poll a future that only touches an `InMemory` store (never pending in practice) to completion
/// without a runtime: used by synchronous fingerprint functions.
pub fn now_or_never<F: std::future::Future>(f: F) -> F::Output {
    futures::FutureExt::now_or_never(f).expect("future was expected to complete without waiting")
}
