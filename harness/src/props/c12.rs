//! C12 — statistics-based chunk pruning never excludes a matching chunk.
//!
//! Engine C (bounded-exhaustive enumeration against a boring reference), two layers:
//!
//! * **fn**  `ColumnPredicate::evaluate_against_stats(pred, stats(chunk)) == false` ⇒ no row of the chunk
//!   satisfies `pred` under SQL three-valued semantics. Chunks = every multiset of ≤ 3 values over a small
//!   per-type domain plus NULL, with their *true* min/max and with missing / mistyped / alternatively typed /
//!   half-missing statistics; predicates = every tree of depth ≤ 1 over the full atom alphabet and every tree
//!   of depth ≤ 2 over a reduced (end-point centred) alphabet, on one and on two columns. The reference is a
//!   direct evaluation of the predicate on each row.
//! * **sql** the same through the real `QueryEngine::extract_column_predicates(sql)` +
//!   `ObjectStoreMetadataClient::get_chunks_with_predicates` on a catalog whose entries carry statistics,
//!   and end to end through `QueryNode::query`; the reference is DataFusion's evaluation of the same SQL
//!   over a `MemTable` of all rows. This layer also validates the fn-layer's reference evaluator against
//!   DataFusion on every row for the forms whose conversion is exact.

use super::common::*;
use crate::engine::env::{self, EnvState};
use crate::engine::report::Report;
use arrow_array::{Array, Float64Array, Int64Array, RecordBatch, StringArray};
use arrow_schema::{DataType, Field, Schema};
use cardinalsin::metadata::{
    ColumnPredicate as P, ColumnStats, MetadataClient, ObjectStoreMetadataClient, PredicateValue as PV, TimeRange,
};
use cardinalsin::query::{QueryConfig, QueryNode};
use futures::FutureExt;
use serde_json::{json, Value};
use std::cmp::Ordering as Ord_;
use std::collections::{BTreeMap, BTreeSet, HashMap};
use std::panic::AssertUnwindSafe;
use std::sync::atomic::{AtomicU64, Ordering};
use std::sync::{Arc, Mutex};

// ------------------------------------------------------------------------------------------------
// Row values, reference evaluation (SQL three-valued logic)
// ------------------------------------------------------------------------------------------------

#[derive(Debug, Clone, PartialEq)]
pub enum V {
    I(i64),
    F(f64),
    S(String),
    Null,
}

impl V {
    fn to_json(&self) -> Value {
        match self {
            V::I(i) => json!(i),
            V::F(f) => json!(f),
            V::S(s) => json!(s),
            V::Null => Value::Null,
        }
    }
    fn from_json(v: &Value, ty: Ty) -> V {
        match (v, ty) {
            (Value::Null, _) => V::Null,
            (Value::String(s), _) => V::S(s.clone()),
            (Value::Number(n), Ty::Float) => V::F(n.as_f64().unwrap_or(0.0)),
            (Value::Number(n), _) => match n.as_i64() {
                Some(i) => V::I(i),
                None => V::F(n.as_f64().unwrap_or(0.0)),
            },
            _ => V::Null,
        }
    }
}

#[derive(Debug, Clone, Copy, PartialEq, Eq, Hash, PartialOrd, Ord)]
pub enum Ty {
    Int,
    Float,
    Str,
}

impl Ty {
    fn name(self) -> &'static str {
        match self {
            Ty::Int => "int",
            Ty::Float => "float",
            Ty::Str => "str",
        }
    }
}

enum Cmp {
    Ord(Ord_),
    Null,
    /// the literal cannot be compared with the column's values by any rule the reference wants to fix
    /// (string against number, boolean against anything): the reference then lets the comparison come out
    /// either way, so that pruning on account of it is judged as "may match"
    Incomparable,
}

fn cmp(v: &V, lit: &PV) -> Cmp {
    match (v, lit) {
        (V::Null, _) | (_, PV::Null) => Cmp::Null,
        (V::I(a), PV::Int64(b)) => Cmp::Ord(a.cmp(b)),
        (V::I(a), PV::Float64(b)) => (*a as f64).partial_cmp(b).map(Cmp::Ord).unwrap_or(Cmp::Incomparable),
        (V::F(a), PV::Int64(b)) => a.partial_cmp(&(*b as f64)).map(Cmp::Ord).unwrap_or(Cmp::Incomparable),
        (V::F(a), PV::Float64(b)) => a.partial_cmp(b).map(Cmp::Ord).unwrap_or(Cmp::Incomparable),
        (V::S(a), PV::String(b)) => Cmp::Ord(a.as_str().cmp(b.as_str())),
        _ => Cmp::Incomparable,
    }
}

/// Resolution of incomparable comparisons: bit k decides the k-th one met during evaluation.
struct Res {
    bits: u32,
    next: u32,
}
impl Res {
    fn take(&mut self) -> bool {
        let b = (self.bits >> self.next) & 1 == 1;
        self.next += 1;
        b
    }
}

fn and3(a: Option<bool>, b: Option<bool>) -> Option<bool> {
    match (a, b) {
        (Some(false), _) | (_, Some(false)) => Some(false),
        (Some(true), Some(true)) => Some(true),
        _ => None,
    }
}
fn or3(a: Option<bool>, b: Option<bool>) -> Option<bool> {
    match (a, b) {
        (Some(true), _) | (_, Some(true)) => Some(true),
        (Some(false), Some(false)) => Some(false),
        _ => None,
    }
}

fn cmp_test(v: &V, lit: &PV, f: impl Fn(Ord_) -> bool, res: &mut Res) -> Option<bool> {
    match cmp(v, lit) {
        Cmp::Ord(o) => Some(f(o)),
        Cmp::Null => None,
        Cmp::Incomparable => Some(res.take()),
    }
}

/// SQL three-valued evaluation of `p` on one row (`None` = NULL / unknown).
fn eval3(p: &P, row: &dyn Fn(&str) -> V, res: &mut Res) -> Option<bool> {
    match p {
        P::Eq(c, l) => cmp_test(&row(c), l, |o| o == Ord_::Equal, res),
        P::NotEq(c, l) => cmp_test(&row(c), l, |o| o != Ord_::Equal, res),
        P::Lt(c, l) => cmp_test(&row(c), l, |o| o == Ord_::Less, res),
        P::LtEq(c, l) => cmp_test(&row(c), l, |o| o != Ord_::Greater, res),
        P::Gt(c, l) => cmp_test(&row(c), l, |o| o == Ord_::Greater, res),
        P::GtEq(c, l) => cmp_test(&row(c), l, |o| o != Ord_::Less, res),
        P::In(c, ls) => {
            let v = row(c);
            let mut acc = Some(false);
            for l in ls {
                acc = or3(acc, cmp_test(&v, l, |o| o == Ord_::Equal, res));
            }
            acc
        }
        P::NotIn(c, ls) => {
            let v = row(c);
            let mut acc = Some(false);
            for l in ls {
                acc = or3(acc, cmp_test(&v, l, |o| o == Ord_::Equal, res));
            }
            acc.map(|b| !b)
        }
        P::Between(c, lo, hi) => {
            let v = row(c);
            let a = cmp_test(&v, lo, |o| o != Ord_::Less, res);
            let b = cmp_test(&v, hi, |o| o != Ord_::Greater, res);
            and3(a, b)
        }
        P::And(a, b) => {
            let x = eval3(a, row, res);
            let y = eval3(b, row, res);
            and3(x, y)
        }
        P::Or(a, b) => {
            let x = eval3(a, row, res);
            let y = eval3(b, row, res);
            or3(x, y)
        }
        P::Not(a) => eval3(a, row, res).map(|b| !b),
    }
}

/// number of incomparable comparisons `p` can meet on `row` (upper bound: counted on this row)
fn count_incomparable(p: &P, row: &dyn Fn(&str) -> V) -> u32 {
    fn one(v: &V, l: &PV) -> u32 {
        matches!(cmp(v, l), Cmp::Incomparable) as u32
    }
    match p {
        P::Eq(c, l) | P::NotEq(c, l) | P::Lt(c, l) | P::LtEq(c, l) | P::Gt(c, l) | P::GtEq(c, l) => one(&row(c), l),
        P::In(c, ls) | P::NotIn(c, ls) => {
            let v = row(c);
            ls.iter().map(|l| one(&v, l)).sum()
        }
        P::Between(c, lo, hi) => {
            let v = row(c);
            one(&v, lo) + one(&v, hi)
        }
        P::And(a, b) | P::Or(a, b) => count_incomparable(a, row) + count_incomparable(b, row),
        P::Not(a) => count_incomparable(a, row),
    }
}

/// Can `row` satisfy `p`? With `strict` an incomparable comparison may come out either way and one
/// favourable resolution suffices ("may match"); without it (statistics whose JSON type the harness
/// falsified: there the subject legitimately compares the literal with the statistics it was given) the
/// row only counts as matching when it matches under every resolution.
fn row_can_match_mode(p: &P, row: &dyn Fn(&str) -> V, strict: bool) -> bool {
    let n = count_incomparable(p, row).min(12);
    let mut all = true;
    for bits in 0..(1u32 << n) {
        let mut r = Res { bits, next: 0 };
        let m = eval3(p, row, &mut r) == Some(true);
        if m && strict {
            return true;
        }
        all &= m;
    }
    !strict && all
}
fn row_can_match(p: &P, row: &dyn Fn(&str) -> V) -> bool {
    row_can_match_mode(p, row, true)
}
/// Weaker: the predicate does not evaluate to a definite FALSE on the row (TRUE or NULL under some resolution).
/// Used where DataFusion is the judge of what matches: its simplifier merges `x NOT IN (a, b) OR x NOT IN (a, NULL)`
/// into `x NOT IN (a)`, which turns a NULL into TRUE, so a NULL verdict of the strict evaluation is not evidence
/// that the conversion lost the row.
fn row_not_excluded(p: &P, row: &dyn Fn(&str) -> V) -> bool {
    let n = count_incomparable(p, row).min(12);
    (0..(1u32 << n)).any(|bits| {
        let mut r = Res { bits, next: 0 };
        eval3(p, row, &mut r) != Some(false)
    })
}

// ------------------------------------------------------------------------------------------------
// fn layer: spaces
// ------------------------------------------------------------------------------------------------

fn domain(ty: Ty, tier: &str) -> Vec<V> {
    let t = tier == "thorough";
    match ty {
        Ty::Int => {
            let mut v = vec![V::I(-1), V::I(0), V::I(1), V::I(2)];
            if t {
                v.push(V::I(4));
            }
            v
        }
        Ty::Float => {
            let mut v = vec![V::F(-0.5), V::F(0.0), V::F(0.5), V::F(1.5)];
            if t {
                v.push(V::F(2.0));
            }
            v
        }
        Ty::Str => {
            let mut v = vec![V::S("".into()), V::S("a".into()), V::S("ab".into()), V::S("b".into())];
            if t {
                v.push(V::S("B".into()));
            }
            v
        }
    }
}

fn lit_of(v: &V) -> PV {
    match v {
        V::I(i) => PV::Int64(*i),
        V::F(f) => PV::Float64(*f),
        V::S(s) => PV::String(s.clone()),
        V::Null => PV::Null,
    }
}

/// literals used against a column of type `ty`: its own domain, NULL, literals of the other numeric type
/// (comparable), and literals of an incomparable type
fn literals(ty: Ty, tier: &str, reduced: bool) -> Vec<PV> {
    let mut v: Vec<PV> = domain(ty, tier).iter().map(lit_of).collect();
    if reduced {
        // the end-point centred alphabet: three domain values and one comparable cross-type literal
        v.truncate(3);
        match ty {
            Ty::Int => v.push(PV::Float64(0.5)),
            Ty::Float => v.push(PV::Int64(0)),
            Ty::Str => {}
        }
        return v;
    }
    v.push(PV::Null);
    match ty {
        Ty::Int => {
            v.push(PV::Float64(-0.5));
            v.push(PV::Float64(0.5));
            v.push(PV::Float64(1.0));
            v.push(PV::String("1".into()));
            v.push(PV::Boolean(true));
        }
        Ty::Float => {
            v.push(PV::Int64(0));
            v.push(PV::Int64(1));
            v.push(PV::String("0.5".into()));
            v.push(PV::Boolean(false));
        }
        Ty::Str => {
            v.push(PV::Int64(1));
            v.push(PV::Float64(0.5));
            v.push(PV::Boolean(true));
        }
    }
    v
}

fn atoms(col: &str, ty: Ty, tier: &str, reduced: bool) -> Vec<P> {
    let lits = literals(ty, tier, reduced);
    let c = || col.to_string();
    let mut a = Vec::new();
    for l in &lits {
        a.push(P::Eq(c(), l.clone()));
        a.push(P::NotEq(c(), l.clone()));
        a.push(P::Lt(c(), l.clone()));
        a.push(P::LtEq(c(), l.clone()));
        a.push(P::Gt(c(), l.clone()));
        a.push(P::GtEq(c(), l.clone()));
    }
    // IN / NOT IN: every subset of size <= 2 of the listed literals (reduced: of the first three)
    let inl: Vec<PV> = if reduced { lits.iter().take(3).cloned().collect() } else { lits.clone() };
    let mut lists: Vec<Vec<PV>> = vec![vec![]];
    for i in 0..inl.len() {
        lists.push(vec![inl[i].clone()]);
        for j in (i + 1)..inl.len() {
            lists.push(vec![inl[i].clone(), inl[j].clone()]);
        }
    }
    if reduced {
        lists.retain(|l| !l.is_empty());
    }
    for l in &lists {
        a.push(P::In(c(), l.clone()));
        if !reduced || l.len() == 1 {
            a.push(P::NotIn(c(), l.clone()));
        }
    }
    // BETWEEN: every ordered and unordered pair
    let bl: Vec<PV> = if reduced { lits.iter().take(3).cloned().collect() } else { lits.clone() };
    for lo in &bl {
        for hi in &bl {
            if reduced && lo == hi {
                continue;
            }
            a.push(P::Between(c(), lo.clone(), hi.clone()));
        }
    }
    a
}

fn depth1(atoms: &[P], atoms_b: &[P]) -> Vec<P> {
    // Not(a), And(a,b), Or(a,b) with a from `atoms`, b from `atoms_b` (and the atoms themselves)
    let mut v: Vec<P> = Vec::new();
    for a in atoms {
        v.push(P::Not(Box::new(a.clone())));
    }
    for a in atoms {
        for b in atoms_b {
            v.push(P::And(Box::new(a.clone()), Box::new(b.clone())));
            v.push(P::Or(Box::new(a.clone()), Box::new(b.clone())));
        }
    }
    v
}

#[derive(Debug, Clone, Copy, PartialEq, Eq, Hash, PartialOrd, Ord)]
enum StatsKind {
    True,
    Missing,
    /// numbers given as JSON strings / strings given as JSON numbers
    Swapped,
    /// booleans / null
    Junk,
    /// int column with float-typed JSON, float column with int-typed JSON (when integral)
    NumAlt,
    MinOnly,
    MaxOnly,
}

impl StatsKind {
    fn name(self) -> &'static str {
        match self {
            StatsKind::True => "true-stats",
            StatsKind::Missing => "missing-stats",
            StatsKind::Swapped => "swapped-type-stats",
            StatsKind::Junk => "junk-stats",
            StatsKind::NumAlt => "alt-numeric-stats",
            StatsKind::MinOnly => "max-missing",
            StatsKind::MaxOnly => "min-missing",
        }
    }
    const ALL: [StatsKind; 7] = [
        StatsKind::True,
        StatsKind::Missing,
        StatsKind::Swapped,
        StatsKind::Junk,
        StatsKind::NumAlt,
        StatsKind::MinOnly,
        StatsKind::MaxOnly,
    ];
}

fn vcmp(a: &V, b: &V) -> Ord_ {
    match (a, b) {
        (V::I(x), V::I(y)) => x.cmp(y),
        (V::F(x), V::F(y)) => x.partial_cmp(y).unwrap_or(Ord_::Equal),
        (V::S(x), V::S(y)) => x.cmp(y),
        _ => Ord_::Equal,
    }
}

/// statistics of one column of a chunk; None = this kind does not apply to these values
fn stats_for(vals: &[V], kind: StatsKind) -> Option<Option<ColumnStats>> {
    let nn: Vec<&V> = vals.iter().filter(|v| **v != V::Null).collect();
    let has_nulls = nn.len() != vals.len();
    let (min, max) = if nn.is_empty() {
        (V::Null, V::Null)
    } else {
        let mut mn = nn[0];
        let mut mx = nn[0];
        for v in &nn {
            if vcmp(v, mn) == Ord_::Less {
                mn = v;
            }
            if vcmp(v, mx) == Ord_::Greater {
                mx = v;
            }
        }
        (mn.clone(), mx.clone())
    };
    let mk = |a: Value, b: Value| Some(Some(ColumnStats { min: a, max: b, has_nulls }));
    match kind {
        StatsKind::True => mk(min.to_json(), max.to_json()),
        StatsKind::Missing => Some(None),
        StatsKind::Swapped => {
            let sw = |v: &V| match v {
                V::I(i) => json!(i.to_string()),
                V::F(f) => json!(f.to_string()),
                V::S(s) => json!(s.len() as i64),
                V::Null => Value::Null,
            };
            mk(sw(&min), sw(&max))
        }
        StatsKind::Junk => mk(json!(true), Value::Null),
        StatsKind::NumAlt => match (&min, &max) {
            (V::I(a), V::I(b)) => mk(json!(*a as f64), json!(*b as f64)),
            (V::F(a), V::F(b)) if a.fract() == 0.0 && b.fract() == 0.0 => mk(json!(*a as i64), json!(*b as i64)),
            _ => None,
        },
        StatsKind::MinOnly => {
            if nn.is_empty() {
                None
            } else {
                mk(min.to_json(), Value::Null)
            }
        }
        StatsKind::MaxOnly => {
            if nn.is_empty() {
                None
            } else {
                mk(Value::Null, max.to_json())
            }
        }
    }
}

/// every non-empty multiset of <= n values over `dom` + NULL
fn multisets(dom: &[V], n: usize) -> Vec<Vec<V>> {
    let mut all: Vec<V> = dom.to_vec();
    all.push(V::Null);
    let mut out = Vec::new();
    fn rec(all: &[V], start: usize, cur: &mut Vec<V>, n: usize, out: &mut Vec<Vec<V>>) {
        if !cur.is_empty() {
            out.push(cur.clone());
        }
        if cur.len() == n {
            return;
        }
        for i in start..all.len() {
            cur.push(all[i].clone());
            rec(all, i, cur, n, out);
            cur.pop();
        }
    }
    rec(&all, 0, &mut Vec::new(), n, &mut out);
    out
}

/// One chunk with statistics: rows (column name -> value per row) and the stats map handed to the subject.
struct ChunkCase {
    cols: Vec<(String, Vec<V>)>,
    nrows: usize,
    stats: HashMap<String, ColumnStats>,
    kinds: Vec<StatsKind>,
}

impl ChunkCase {
    fn strict(&self) -> bool {
        !self.kinds.iter().any(|k| matches!(k, StatsKind::Swapped | StatsKind::Junk))
    }
    fn can_match(&self, p: &P, i: usize) -> bool {
        row_can_match_mode(p, &self.row_fn(i), self.strict())
    }
    fn row_fn(&self, i: usize) -> impl Fn(&str) -> V + '_ {
        move |c: &str| self.cols.iter().find(|(n, _)| n == c).map(|(_, v)| v[i].clone()).unwrap_or(V::Null)
    }
    fn to_json(&self) -> Value {
        json!({
            "rows": (0..self.nrows).map(|i| self.cols.iter().map(|(n, v)| (n.clone(), v[i].to_json())).collect::<serde_json::Map<_, _>>()).collect::<Vec<_>>(),
            "stats": self.stats.iter().map(|(k, s)| (k.clone(), json!({"min": s.min, "max": s.max, "has_nulls": s.has_nulls}))).collect::<serde_json::Map<_, _>>(),
            "types": self.cols.iter().map(|(n, v)| (n.clone(), json!(match v.iter().find(|x| **x != V::Null) { Some(V::F(_)) => "float", Some(V::S(_)) => "str", _ => "int" }))).collect::<serde_json::Map<_, _>>(),
        })
    }
}

fn one_col_chunks(col: &str, ty: Ty, tier: &str, kinds: &[StatsKind]) -> Vec<ChunkCase> {
    let mut out = Vec::new();
    for vals in multisets(&domain(ty, tier), 3) {
        for k in kinds {
            if let Some(st) = stats_for(&vals, *k) {
                let mut stats = HashMap::new();
                if let Some(s) = st {
                    stats.insert(col.to_string(), s);
                }
                out.push(ChunkCase { cols: vec![(col.to_string(), vals.clone())], nrows: vals.len(), stats, kinds: vec![*k] });
            }
        }
    }
    out
}

fn two_col_chunks(tx: Ty, ty: Ty, tier: &str, kinds: &[(StatsKind, StatsKind)]) -> Vec<ChunkCase> {
    // rows = pairs (x, y); chunks = every multiset of <= 2 rows over (3 values + NULL)^2
    let dx: Vec<V> = domain(tx, tier).into_iter().take(3).chain(std::iter::once(V::Null)).collect();
    let dy: Vec<V> = domain(ty, tier).into_iter().take(3).chain(std::iter::once(V::Null)).collect();
    let mut rows: Vec<(V, V)> = Vec::new();
    for x in &dx {
        for y in &dy {
            rows.push((x.clone(), y.clone()));
        }
    }
    let mut sets: Vec<Vec<(V, V)>> = Vec::new();
    for i in 0..rows.len() {
        sets.push(vec![rows[i].clone()]);
        for j in i..rows.len() {
            sets.push(vec![rows[i].clone(), rows[j].clone()]);
        }
    }
    let mut out = Vec::new();
    for s in sets {
        let xs: Vec<V> = s.iter().map(|r| r.0.clone()).collect();
        let ys: Vec<V> = s.iter().map(|r| r.1.clone()).collect();
        for (kx, ky) in kinds {
            let (Some(sx), Some(sy)) = (stats_for(&xs, *kx), stats_for(&ys, *ky)) else { continue };
            let mut stats = HashMap::new();
            if let Some(s) = sx {
                stats.insert("x".to_string(), s);
            }
            if let Some(s) = sy {
                stats.insert("y".to_string(), s);
            }
            out.push(ChunkCase { cols: vec![("x".into(), xs.clone()), ("y".into(), ys.clone())], nrows: s.len(), stats, kinds: vec![*kx, *ky] });
        }
    }
    out
}

// ------------------------------------------------------------------------------------------------
// fn layer: judging one (predicate, chunk) pair
// ------------------------------------------------------------------------------------------------

fn op_name(p: &P) -> &'static str {
    match p {
        P::Eq(..) => "Eq",
        P::NotEq(..) => "NotEq",
        P::Lt(..) => "Lt",
        P::LtEq(..) => "LtEq",
        P::Gt(..) => "Gt",
        P::GtEq(..) => "GtEq",
        P::In(..) => "In",
        P::NotIn(..) => "NotIn",
        P::Between(..) => "Between",
        P::And(..) => "And",
        P::Or(..) => "Or",
        P::Not(..) => "Not",
    }
}

fn shape(p: &P) -> String {
    match p {
        P::And(a, b) => format!("And({},{})", shape(a), shape(b)),
        P::Or(a, b) => format!("Or({},{})", shape(a), shape(b)),
        P::Not(a) => format!("Not({})", shape(a)),
        o => op_name(o).to_string(),
    }
}

/// where a literal lies relative to the statistics of its column
fn rel(l: &PV, st: Option<&ColumnStats>, vals: &[V]) -> &'static str {
    let Some(_) = st else { return "nostats" };
    let nn: Vec<&V> = vals.iter().filter(|v| **v != V::Null).collect();
    if matches!(l, PV::Null) {
        return "null";
    }
    if nn.is_empty() {
        return "allnull";
    }
    let mut lo = false; // some value below the literal
    let mut hi = false;
    let mut eq = false;
    for v in &nn {
        match cmp(v, l) {
            Cmp::Ord(Ord_::Less) => lo = true,
            Cmp::Ord(Ord_::Greater) => hi = true,
            Cmp::Ord(Ord_::Equal) => eq = true,
            _ => return "xtype",
        }
    }
    match (lo, eq, hi) {
        (false, false, true) => "<min",
        (false, true, true) => "=min",
        (false, true, false) => "=min=max",
        (true, _, true) => "inside",
        (true, true, false) => "=max",
        (true, false, false) => ">max",
        (false, false, false) => "none",
    }
}

fn atom_class(p: &P, ch: &ChunkCase) -> String {
    let col_of = |c: &str| ch.cols.iter().find(|(n, _)| n == c);
    let d = |c: &str, l: &PV| -> &'static str {
        match col_of(c) {
            Some((_, vals)) => rel(l, ch.stats.get(c), vals),
            None => "nocolumn",
        }
    };
    match p {
        P::Eq(c, l) | P::NotEq(c, l) | P::Lt(c, l) | P::LtEq(c, l) | P::Gt(c, l) | P::GtEq(c, l) => format!("{}[lit{}]", op_name(p), d(c, l)),
        P::In(c, ls) | P::NotIn(c, ls) => format!("{}[{}]", op_name(p), ls.iter().map(|l| d(c, l)).collect::<Vec<_>>().join(",")),
        P::Between(c, lo, hi) => format!("Between[lo{},hi{}]", d(c, lo), d(c, hi)),
        o => shape(o),
    }
}

fn culprit_atoms<'a>(p: &'a P, ch: &ChunkCase, out: &mut Vec<&'a P>) {
    match p {
        P::And(a, b) | P::Or(a, b) => {
            culprit_atoms(a, ch, out);
            culprit_atoms(b, ch, out);
        }
        P::Not(a) => culprit_atoms(a, ch, out),
        atom => {
            let pruned = !atom.evaluate_against_stats(&ch.stats);
            if pruned && (0..ch.nrows).any(|i| ch.can_match(atom, i)) {
                out.push(atom);
            }
        }
    }
}

struct FnFail {
    sig: String,
    msg: String,
    replay: Value,
}

/// Returns (pruned, Some(failure) when the pruning is unsound).
fn judge(p: &P, ch: &ChunkCase, ty_name: &str) -> (bool, Option<FnFail>) {
    let r = std::panic::catch_unwind(AssertUnwindSafe(|| p.evaluate_against_stats(&ch.stats)));
    let kinds = ch.kinds.iter().map(|k| k.name()).collect::<Vec<_>>().join("+");
    let replay = || json!({"kind": "fn", "pred": serde_json::to_value(p).unwrap_or(Value::Null), "chunk": ch.to_json()});
    let may = match r {
        Ok(b) => b,
        Err(_) => {
            return (
                false,
                Some(FnFail {
                    sig: format!("C12:fn:{ty_name}:{kinds}:panic:{}", shape(p)),
                    msg: format!("evaluate_against_stats panicked for {p:?} on stats {:?}", ch.to_json()["stats"]),
                    replay: replay(),
                }),
            )
        }
    };
    if may {
        return (false, None);
    }
    let matching: Vec<usize> = (0..ch.nrows).filter(|i| ch.can_match(p, *i)).collect();
    if matching.is_empty() {
        return (true, None);
    }
    let mut cul = Vec::new();
    culprit_atoms(p, ch, &mut cul);
    let sig = if let Some(a) = cul.first() {
        format!("C12:fn:{ty_name}:{kinds}:atom:{}", atom_class(a, ch))
    } else {
        format!("C12:fn:{ty_name}:{kinds}:tree:{}", shape(p))
    };
    let cj = ch.to_json();
    (
        true,
        Some(FnFail {
            sig,
            msg: format!(
                "chunk pruned although row(s) {:?} satisfy the predicate\n predicate: {p:?}\n rows: {}\n stats: {}",
                matching, cj["rows"], cj["stats"]
            ),
            replay: replay(),
        }),
    )
}

#[derive(Default)]
struct FnAgg {
    evaluations: u64,
    pruned: u64,
    pruned_by_op: BTreeMap<String, (u64, u64)>, // op -> (pruned, kept) on true stats, atoms only
    endpoint_cases: BTreeMap<String, u64>,
    fails: BTreeMap<String, (FnFail, u64)>,
    imprecise: u64,
}

impl FnAgg {
    fn merge(&mut self, o: FnAgg) {
        self.evaluations += o.evaluations;
        self.pruned += o.pruned;
        self.imprecise += o.imprecise;
        for (k, v) in o.pruned_by_op {
            let e = self.pruned_by_op.entry(k).or_default();
            e.0 += v.0;
            e.1 += v.1;
        }
        for (k, v) in o.endpoint_cases {
            *self.endpoint_cases.entry(k).or_default() += v;
        }
        for (k, (f, n)) in o.fails {
            match self.fails.get_mut(&k) {
                Some(e) => e.1 += n,
                None => {
                    self.fails.insert(k, (f, n));
                }
            }
        }
    }
}

/// Evaluate every predicate of `preds` (index i handled by worker i % workers) on every chunk.
fn sweep(preds: &[P], chunks: &[ChunkCase], ty_name: &str, track_atoms: bool) -> FnAgg {
    let workers = crate::engine::sched::default_workers().max(1);
    let total = Mutex::new(FnAgg::default());
    std::thread::scope(|s| {
        for w in 0..workers {
            let total = &total;
            s.spawn(move || {
                let mut agg = FnAgg::default();
                let mut i = w;
                while i < preds.len() {
                    let p = &preds[i];
                    for ch in chunks {
                        agg.evaluations += 1;
                        let (pruned, fail) = judge(p, ch, ty_name);
                        if pruned {
                            agg.pruned += 1;
                        } else if fail.is_none() && !(0..ch.nrows).any(|r| ch.can_match(p, r)) {
                            agg.imprecise += 1;
                        }
                        if track_atoms && ch.kinds.iter().all(|k| *k == StatsKind::True) {
                            let e = agg.pruned_by_op.entry(op_name(p).to_string()).or_default();
                            if pruned {
                                e.0 += 1;
                            } else {
                                e.1 += 1;
                            }
                            let cls = atom_class(p, ch);
                            if cls.contains("=min") || cls.contains("=max") {
                                *agg.endpoint_cases.entry(op_name(p).to_string()).or_default() += 1;
                            }
                        }
                        if let Some(f) = fail {
                            match agg.fails.get_mut(&f.sig) {
                                Some(e) => e.1 += 1,
                                None => {
                                    agg.fails.insert(f.sig.clone(), (f, 1));
                                }
                            }
                        }
                    }
                    i += workers;
                }
                total.lock().unwrap().merge(agg);
            });
        }
    });
    total.into_inner().unwrap()
}

fn run_fn_layer(rep: &mut Report, tier: &str) {
    let thorough = tier == "thorough";
    let mut all = FnAgg::default();
    let mut spaces = Vec::new();
    for ty in [Ty::Int, Ty::Float, Str_()] {
        let t0 = std::time::Instant::now();
        // (1) full atom alphabet, depth <= 1, all statistics kinds
        let full = atoms("x", ty, tier, false);
        let chunks = one_col_chunks("x", ty, tier, &StatsKind::ALL);
        let a0 = sweep(&full, &chunks, ty.name(), true);
        let d1 = depth1(&full, &full);
        let a1 = sweep(&d1, &chunks, ty.name(), false);
        // (2) reduced alphabet, depth 2: Not(d1), And/Or(d1 | atom, d1 | atom)
        let red = atoms("x", ty, tier, true);
        let mut lvl1: Vec<P> = red.clone();
        lvl1.extend(depth1(&red, &red));
        let mut chunks2 = one_col_chunks("x", ty, tier, &[StatsKind::True, StatsKind::MinOnly, StatsKind::NumAlt]);
        if !thorough {
            chunks2.retain(|c| c.nrows <= 2);
        }
        let side: Vec<P> = if thorough { lvl1.iter().step_by(3).cloned().collect() } else { red.iter().cloned().chain(lvl1.iter().skip(red.len()).step_by(19).cloned()).collect() };
        let d2 = depth1(&lvl1, &side);
        let a2 = sweep(&d2, &chunks2, ty.name(), false);
        let line = format!(
            "fn {}: atoms {} x chunks {} ; depth-1 trees {} ; depth-2 trees {} (over {} reduced atoms) x chunks {} ; pruned {} ; {:.1}s",
            ty.name(),
            full.len(),
            chunks.len(),
            d1.len(),
            d2.len(),
            red.len(),
            chunks2.len(),
            a0.pruned + a1.pruned + a2.pruned,
            t0.elapsed().as_secs_f64()
        );
        println!("{line}");
        spaces.push(json!({"space": format!("one column, {}", ty.name()), "atoms": full.len(), "chunks_with_stats": chunks.len(), "depth1_trees": d1.len(), "depth2_trees": d2.len(), "reduced_atoms": red.len(), "depth2_chunks": chunks2.len(),
                           "evaluations": a0.evaluations + a1.evaluations + a2.evaluations, "pruned": a0.pruned + a1.pruned + a2.pruned}));
        all.merge(a0);
        all.merge(a1);
        all.merge(a2);
    }
    // (3) two columns
    for (tx, ty) in [(Ty::Int, Ty::Str), (Ty::Float, Ty::Int)] {
        let t0 = std::time::Instant::now();
        let ax = atoms("x", tx, tier, true);
        let ay = atoms("y", ty, tier, true);
        let kinds = [
            (StatsKind::True, StatsKind::True),
            (StatsKind::True, StatsKind::Missing),
            (StatsKind::Missing, StatsKind::True),
            (StatsKind::Swapped, StatsKind::True),
            (StatsKind::True, StatsKind::Junk),
        ];
        let chunks = two_col_chunks(tx, ty, tier, &kinds);
        let mut both: Vec<P> = ax.clone();
        both.extend(ay.clone());
        let mut d1 = depth1(&ax, &ay);
        d1.extend(depth1(&ay, &ax));
        let a1 = sweep(&d1, &chunks, &format!("{}x{}", tx.name(), ty.name()), false);
        // depth 2 over a thinner alphabet
        let step = if thorough { 2 } else { 8 };
        let thin: Vec<P> = both.iter().step_by(step).cloned().collect();
        let mut lvl1: Vec<P> = thin.clone();
        lvl1.extend(depth1(&thin, &thin));
        let d2 = depth1(&lvl1, &lvl1);
        let chunks2 = two_col_chunks(tx, ty, tier, &kinds[..2]);
        let a2 = sweep(&d2, &chunks2, &format!("{}x{}", tx.name(), ty.name()), false);
        println!(
            "fn {}x{}: depth-1 trees {} x chunks {} ; depth-2 trees {} x chunks {} ; pruned {} ; {:.1}s",
            tx.name(),
            ty.name(),
            d1.len(),
            chunks.len(),
            d2.len(),
            chunks2.len(),
            a1.pruned + a2.pruned,
            t0.elapsed().as_secs_f64()
        );
        spaces.push(json!({"space": format!("two columns, {} x {}", tx.name(), ty.name()), "depth1_trees": d1.len(), "chunks_with_stats": chunks.len(), "depth2_trees": d2.len(), "depth2_chunks": chunks2.len(),
                           "evaluations": a1.evaluations + a2.evaluations, "pruned": a1.pruned + a2.pruned}));
        all.merge(a1);
        all.merge(a2);
    }
    // vacuity: on true statistics every range-capable operator must both prune and keep, and the end-point
    // cases (literal equal to min or max) must have been exercised for each of them
    for op in ["Eq", "Lt", "LtEq", "Gt", "GtEq", "In", "Between"] {
        let (p, k) = all.pruned_by_op.get(op).copied().unwrap_or((0, 0));
        if p == 0 || k == 0 {
            rep.machinery(format!("vacuity: operator {op} pruned {p} and kept {k} chunks on true statistics (both must be > 0)"));
        }
        if all.endpoint_cases.get(op).copied().unwrap_or(0) == 0 {
            rep.machinery(format!("vacuity: no end-point case (literal equal to min or max) was exercised for {op}"));
        }
    }
    rep.add_u64("evaluations", all.evaluations);
    rep.add_u64("distinct_nontrivial", all.pruned);
    rep.set("fn_layer", json!({"spaces": spaces, "pruned_cases": all.pruned, "kept_although_no_row_matches": all.imprecise,
        "atoms_on_true_stats_pruned_kept_by_operator": all.pruned_by_op.iter().map(|(k, v)| (k.clone(), json!([v.0, v.1]))).collect::<serde_json::Map<_, _>>(),
        "endpoint_cases_by_operator": all.endpoint_cases}));
    for (sig, (f, n)) in all.fails {
        rep.violation_n(&sig, &f.msg, f.replay, n);
    }
}

#[allow(non_snake_case)]
fn Str_() -> Ty {
    Ty::Str
}

// ------------------------------------------------------------------------------------------------
// sql layer
// ------------------------------------------------------------------------------------------------

#[derive(Debug, Clone)]
struct SRow {
    rid: i64,
    cid: i64,
    ts: i64,
    metric: String,
    host: V,
    vi: V,
    vf: V,
}

fn opt_s(v: &V) -> Option<String> {
    match v {
        V::S(s) => Some(s.clone()),
        _ => None,
    }
}
fn opt_i(v: &V) -> Option<i64> {
    match v {
        V::I(i) => Some(*i),
        _ => None,
    }
}
fn opt_f(v: &V) -> Option<f64> {
    match v {
        V::F(f) => Some(*f),
        _ => None,
    }
}

fn srow_batch(rows: &[SRow]) -> RecordBatch {
    let schema = Arc::new(Schema::new(vec![
        Field::new("timestamp", DataType::Int64, false),
        Field::new("metric_name", DataType::Utf8, false),
        Field::new("host", DataType::Utf8, true),
        Field::new("value_i64", DataType::Int64, true),
        Field::new("value_f64", DataType::Float64, true),
        Field::new("cid", DataType::Int64, false),
        Field::new("rid", DataType::Int64, false),
    ]));
    RecordBatch::try_new(
        schema,
        vec![
            Arc::new(Int64Array::from(rows.iter().map(|r| r.ts).collect::<Vec<_>>())) as Arc<dyn Array>,
            Arc::new(StringArray::from(rows.iter().map(|r| r.metric.clone()).collect::<Vec<_>>())),
            Arc::new(StringArray::from(rows.iter().map(|r| opt_s(&r.host)).collect::<Vec<_>>())),
            Arc::new(Int64Array::from(rows.iter().map(|r| opt_i(&r.vi)).collect::<Vec<_>>())),
            Arc::new(Float64Array::from(rows.iter().map(|r| opt_f(&r.vf)).collect::<Vec<_>>())),
            Arc::new(Int64Array::from(rows.iter().map(|r| r.cid).collect::<Vec<_>>())),
            Arc::new(Int64Array::from(rows.iter().map(|r| r.rid).collect::<Vec<_>>())),
        ],
    )
    .expect("batch")
}

fn sql_chunks() -> Vec<Vec<SRow>> {
    let n = V::Null;
    let i = |x: i64| V::I(x);
    let f = |x: f64| V::F(x);
    let s = |x: &str| V::S(x.to_string());
    let ints: Vec<Vec<V>> = vec![
        vec![i(-1)], vec![i(0)], vec![i(1)], vec![i(2)], vec![i(-1), i(0)], vec![i(0), i(1)], vec![i(1), i(2)], vec![i(-1), i(2)],
        vec![i(0), n.clone()], vec![n.clone()], vec![i(0), i(0), i(1)], vec![i(2), n.clone(), i(-1)],
    ];
    let floats: Vec<Vec<V>> = vec![
        vec![f(-0.5)], vec![f(0.0)], vec![f(0.5)], vec![f(1.5)], vec![f(-0.5), f(0.0)], vec![f(0.0), f(0.5)], vec![f(0.5), f(1.5)], vec![f(-0.5), f(1.5)],
        vec![f(0.0), n.clone()], vec![n.clone()], vec![f(0.0), f(1.0), f(2.0)], vec![f(1.5), n.clone(), f(-0.5)],
    ];
    let strs: Vec<Vec<V>> = vec![
        vec![s("")], vec![s("a")], vec![s("ab")], vec![s("b")], vec![s(""), s("a")], vec![s("a"), s("ab")], vec![s("ab"), s("b")], vec![s(""), s("b")],
        vec![s("a"), n.clone()], vec![n.clone()], vec![s("a"), s("a"), s("ab")], vec![s("b"), n.clone(), s("")],
    ];
    let k = ints.len();
    let mut out = Vec::new();
    let mut rid = 0;
    let base = env::EPOCH_NS - 10 * 60 * 1_000_000_000; // 11:50, inside the engine's default "last hour" window
    for c in 0..k {
        let a = &ints[c];
        let b = &floats[(c + 5) % k];
        let d = &strs[(c + 7) % k];
        let len = a.len().max(b.len()).max(d.len());
        let mut rows = Vec::new();
        for r in 0..len {
            rows.push(SRow {
                rid,
                cid: c as i64,
                ts: base + rid,
                metric: if c % 2 == 0 { "cpu".into() } else { "mem".into() },
                host: d[r % d.len()].clone(),
                vi: a[r % a.len()].clone(),
                vf: b[r % b.len()].clone(),
            });
            rid += 1;
        }
        out.push(rows);
    }
    out
}

fn chunk_path(c: usize) -> String {
    format!("t/data/chunk-{c:02}.parquet")
}

/// statistics variant of chunk `c` in world `w`
fn world_kind(w: usize, c: usize, col: usize) -> StatsKind {
    match w {
        0 => StatsKind::True,
        1 => [StatsKind::True, StatsKind::Missing, StatsKind::NumAlt, StatsKind::True, StatsKind::Swapped, StatsKind::MinOnly, StatsKind::MaxOnly][(c + 2 * col) % 7],
        _ => StatsKind::Missing,
    }
}

struct World {
    chunks: Vec<Vec<SRow>>,
    all_rows: Vec<SRow>,
    node: QueryNode,
    meta: Arc<ObjectStoreMetadataClient>,
    paths: Vec<String>,
    refctx: datafusion::prelude::SessionContext,
}

async fn build_world(w: usize) -> Result<World, String> {
    let store = new_mem();
    let chunks = sql_chunks();
    let setup = os_client(store.clone());
    let mut paths = Vec::new();
    for (c, rows) in chunks.iter().enumerate() {
        let path = chunk_path(c);
        let bytes = encode_parquet(&srow_batch(rows));
        let size = bytes.len() as u64;
        store.put(&object_store::path::Path::from(path.as_str()), bytes.into()).await.map_err(|e| e.to_string())?;
        let m = cardinalsin::ingester::ChunkMetadata {
            path: path.clone(),
            min_timestamp: rows.iter().map(|r| r.ts).min().unwrap(),
            max_timestamp: rows.iter().map(|r| r.ts).max().unwrap(),
            row_count: rows.len() as u64,
            size_bytes: size,
        };
        setup.register_chunk(&path, &m).await.map_err(|e| e.to_string())?;
        paths.push(path);
    }
    // attach statistics to the catalog entries (the ingest path never writes any, so this is the only way
    // pruning by statistics can happen at all)
    let cat_path = object_store::path::Path::parse(CATALOG).map_err(|e| e.to_string())?;
    let raw = store.get(&cat_path).await.map_err(|e| e.to_string())?.bytes().await.map_err(|e| e.to_string())?;
    let mut cat = parse_catalog(&raw)?;
    for (c, rows) in chunks.iter().enumerate() {
        let e = cat.chunks.get_mut(&chunk_path(c)).ok_or("chunk missing from catalog")?;
        let cols: [(&str, Vec<V>); 4] = [
            ("host", rows.iter().map(|r| r.host.clone()).collect()),
            ("value_i64", rows.iter().map(|r| r.vi.clone()).collect()),
            ("value_f64", rows.iter().map(|r| r.vf.clone()).collect()),
            ("metric_name", rows.iter().map(|r| V::S(r.metric.clone())).collect()),
        ];
        for (ci, (name, vals)) in cols.iter().enumerate() {
            let kind = world_kind(w, c, ci);
            let st = stats_for(vals, kind).unwrap_or_else(|| stats_for(vals, StatsKind::True).unwrap());
            if let Some(s) = st {
                e.column_stats.insert(name.to_string(), s);
            }
        }
    }
    store.put(&cat_path, serde_json::to_vec(&cat).map_err(|e| e.to_string())?.into()).await.map_err(|e| e.to_string())?;
    let meta = Arc::new(os_client(store.clone()));
    let node = QueryNode::new(
        QueryConfig { l2_cache_dir: None, l1_cache_size: 8 << 20, ..QueryConfig::default() },
        store.clone(),
        meta.clone(),
        super::c03::storage_config(),
    )
    .await
    .map_err(|e| format!("QueryNode::new: {e}"))?;
    // a node that has served a query before: `metrics` is bound to the real files' schema
    node.engine.register_metrics_table_for_chunks(&paths).await.map_err(|e| format!("bootstrap registration: {e}"))?;
    let all_rows: Vec<SRow> = chunks.iter().flatten().cloned().collect();
    let refctx = datafusion::prelude::SessionContext::new_with_config(datafusion::prelude::SessionConfig::new().with_target_partitions(1));
    let b = srow_batch(&all_rows);
    let t = datafusion::datasource::MemTable::try_new(b.schema(), vec![vec![b]]).map_err(|e| e.to_string())?;
    refctx.register_table("metrics", Arc::new(t)).map_err(|e| e.to_string())?;
    Ok(World { chunks, all_rows, node, meta, paths, refctx })
}

#[derive(Debug, Clone, serde::Serialize, serde::Deserialize)]
struct SqlCase {
    /// "plain": SELECT * FROM metrics WHERE <w> (chunk-level + end-to-end + reference validation);
    /// "full": an arbitrary statement (end-to-end only)
    kind: String,
    sql: String,
    wher: String,
    /// the conversion of this WHERE clause is expected to be exact (reference validation applies)
    exact: bool,
}

fn sql_lits(col: &str, cross: bool) -> Vec<String> {
    let mut v: Vec<String> = match col {
        "value_i64" => vec!["-1", "0", "1", "2"],
        "value_f64" => vec!["-0.5", "0.0", "0.5", "1.5"],
        "host" => vec!["''", "'a'", "'ab'", "'b'"],
        "metric_name" => vec!["'cpu'", "'mem'", "'net'"],
        _ => vec![],
    }
    .into_iter()
    .map(String::from)
    .collect();
    if cross {
        match col {
            "value_i64" => v.extend(["0.5".to_string(), "1.0".to_string()]),
            "value_f64" => v.extend(["0".to_string(), "1".to_string(), "2".to_string()]),
            _ => {}
        }
    }
    v
}

fn sql_cases(tier: &str) -> Vec<SqlCase> {
    let thorough = tier == "thorough";
    let cols = ["value_i64", "value_f64", "host", "metric_name"];
    let ops = ["=", "!=", "<", "<=", ">", ">="];
    let mut atoms_exact: Vec<String> = Vec::new();
    let mut atoms_other: Vec<String> = Vec::new();
    for c in cols {
        let lits = sql_lits(c, true);
        for l in &lits {
            for o in ops {
                atoms_exact.push(format!("{c} {o} {l}"));
                atoms_other.push(format!("{l} {o} {c}"));
                atoms_other.push(format!("NOT ({c} {o} {l})"));
            }
        }
        let own = sql_lits(c, false);
        for a in &own {
            for b in &own {
                atoms_exact.push(format!("{c} BETWEEN {a} AND {b}"));
                atoms_exact.push(format!("{c} NOT BETWEEN {a} AND {b}"));
            }
        }
        for i in 0..own.len() {
            atoms_exact.push(format!("{c} IN ({})", own[i]));
            atoms_exact.push(format!("{c} NOT IN ({})", own[i]));
            for j in (i + 1)..own.len() {
                atoms_exact.push(format!("{c} IN ({}, {})", own[i], own[j]));
                atoms_exact.push(format!("{c} NOT IN ({}, {})", own[i], own[j]));
            }
        }
        atoms_other.push(format!("{c} IS NULL"));
        atoms_other.push(format!("{c} IS NOT NULL"));
        atoms_other.push(format!("{c} = NULL"));
        atoms_other.push(format!("{c} IN ({}, NULL)", own[0]));
        atoms_other.push(format!("{c} NOT IN ({}, NULL)", own[0]));
    }
    atoms_other.push("value_i64 + 1 > 2".into());
    atoms_other.push("value_f64 * 2.0 <= 1.0".into());
    atoms_other.push("value_i64 > value_f64".into());
    atoms_other.push("host LIKE 'a%'".into());
    atoms_other.push("host = 'a' IS NOT TRUE".into());
    atoms_other.push("CAST(value_i64 AS DOUBLE) >= 1.5".into());
    atoms_other.push("abs(value_i64) = 1".into());
    atoms_other.push("host > metric_name".into());
    let mut cases = Vec::new();
    let plain = |w: &str, exact: bool| SqlCase { kind: "plain".into(), sql: format!("SELECT * FROM metrics WHERE {w}"), wher: w.to_string(), exact };
    for a in &atoms_exact {
        cases.push(plain(a, true));
    }
    for a in &atoms_other {
        cases.push(plain(a, false));
    }
    // compound clauses over an end-point centred sub-alphabet
    let sub: Vec<&String> = atoms_exact.iter().step_by(if thorough { 5 } else { 11 }).collect();
    for a in &sub {
        for b in &sub {
            cases.push(plain(&format!("{a} AND {b}"), true));
            cases.push(plain(&format!("{a} OR {b}"), true));
            cases.push(plain(&format!("NOT ({a} OR {b})"), false));
            cases.push(plain(&format!("NOT ({a}) AND {b}"), false));
        }
    }
    // a convertible clause next to one the conversion cannot express (reversed operands, NOT, IS NULL, arithmetic,
    // LIKE, column-vs-column ...): under OR nothing may be pushed down, under AND the convertible side may
    let others: Vec<&String> = atoms_other.iter().step_by(if thorough { 2 } else { 7 }).collect();
    for a in &sub {
        for o in &others {
            cases.push(plain(&format!("{a} OR {o}"), false));
            cases.push(plain(&format!("{o} OR {a}"), false));
            cases.push(plain(&format!("{a} AND {o}"), false));
            cases.push(plain(&format!("({o}) AND {a}"), false));
        }
    }
    let sub3: Vec<&String> = atoms_exact.iter().step_by(if thorough { 23 } else { 47 }).collect();
    for a in &sub3 {
        for b in &sub3 {
            for c in &sub3 {
                cases.push(plain(&format!("({a} OR {b}) AND {c}"), true));
                cases.push(plain(&format!("{a} OR ({b} AND {c})"), true));
            }
        }
    }
    // statements in which the filter does not sit directly on the base table's own column names
    let full = |sql: String, w: &str| SqlCase { kind: "full".into(), sql, wher: w.to_string(), exact: false };
    for a in atoms_exact.iter().step_by(if thorough { 3 } else { 7 }) {
        cases.push(full(format!("SELECT count(*) AS n, min(rid) AS lo, max(rid) AS hi FROM metrics WHERE {a}"), a));
        cases.push(full(format!("SELECT metric_name, count(*) AS n FROM metrics WHERE {a} GROUP BY metric_name"), a));
        cases.push(full(format!("SELECT rid FROM metrics WHERE {a} ORDER BY rid LIMIT 3"), a));
        cases.push(full(format!("SELECT rid, value_i64 FROM (SELECT rid, value_i64, value_f64, host, metric_name FROM metrics) AS s WHERE {a}"), a));
    }
    // aliasing: the name in the filter is not the base column of that name
    for (alias_of, name, lit) in [
        ("value_i64", "value_f64", "1.5"),
        ("value_f64", "value_i64", "1"),
        ("metric_name", "host", "'cpu'"),
        ("host", "metric_name", "'a'"),
        ("cid", "value_i64", "5"),
    ] {
        for o in ops {
            let others: Vec<&str> = ["value_i64", "value_f64", "host", "metric_name"].into_iter().filter(|c| *c != name).collect();
            cases.push(full(
                format!("SELECT rid, {name} FROM (SELECT rid, {alias_of} AS {name}, {} FROM metrics) AS s WHERE {name} {o} {lit}", others.iter().map(|c| format!("{c} AS o_{c}")).collect::<Vec<_>>().join(", ")),
                &format!("alias {alias_of} AS {name}: {name} {o} {lit}"),
            ));
            cases.push(full(
                format!("SELECT {name}, count(*) AS n FROM (SELECT {alias_of} AS {name} FROM metrics) AS s GROUP BY {name} HAVING {name} {o} {lit}"),
                &format!("alias+having {alias_of} AS {name}: {name} {o} {lit}"),
            ));
            cases.push(full(
                format!("SELECT rid FROM metrics AS value_tbl WHERE value_tbl.{alias_of} {o} {lit}"),
                &format!("table alias: {alias_of} {o} {lit}"),
            ));
            cases.push(full(
                format!("SELECT metric_name, max({alias_of}) AS {name} FROM metrics GROUP BY metric_name HAVING max({alias_of}) {o} {lit}"),
                &format!("having on aggregate of {alias_of} aliased {name}: {o} {lit}"),
            ));
        }
    }
    cases.push(full("SELECT a.rid FROM metrics a JOIN metrics b ON a.rid = b.rid WHERE a.value_i64 >= 2 AND b.value_f64 <= 0.0".into(), "join"));
    cases.push(full("SELECT rid FROM metrics WHERE value_i64 >= 2 UNION ALL SELECT rid FROM metrics WHERE value_f64 > 1.0".into(), "union"));
    cases.push(full("SELECT rid FROM metrics WHERE value_i64 IN (SELECT max(value_i64) FROM metrics)".into(), "in-subquery"));
    cases.push(full("WITH s AS (SELECT rid, value_i64 AS host FROM metrics) SELECT rid FROM s WHERE host >= 2".into(), "cte alias"));
    cases
}

fn template(w: &str) -> String {
    // literals -> ?
    let mut out = String::new();
    let b: Vec<char> = w.chars().collect();
    let mut i = 0;
    while i < b.len() {
        let c = b[i];
        if c == '\'' {
            i += 1;
            while i < b.len() && b[i] != '\'' {
                i += 1;
            }
            i += 1;
            out.push('?');
        } else if c.is_ascii_digit() || (c == '-' && i + 1 < b.len() && b[i + 1].is_ascii_digit() && (i == 0 || !b[i - 1].is_alphanumeric())) {
            let prev_ident = i > 0 && (b[i - 1].is_alphanumeric() || b[i - 1] == '_');
            if prev_ident {
                out.push(c);
                i += 1;
                continue;
            }
            i += 1;
            while i < b.len() && (b[i].is_ascii_digit() || b[i] == '.') {
                i += 1;
            }
            out.push('?');
        } else {
            out.push(c);
            i += 1;
        }
    }
    out
}

fn norm(batches: &[RecordBatch]) -> Result<Vec<String>, String> {
    use arrow::util::display::{ArrayFormatter, FormatOptions};
    let opts = FormatOptions::default().with_null("NULL");
    let mut out = Vec::new();
    for b in batches {
        let fm: Vec<ArrayFormatter> = b.columns().iter().map(|c| ArrayFormatter::try_new(c.as_ref(), &opts).map_err(|e| e.to_string())).collect::<Result<_, _>>()?;
        for i in 0..b.num_rows() {
            out.push(fm.iter().map(|f| f.value(i).to_string()).collect::<Vec<_>>().join("|"));
        }
    }
    out.sort();
    Ok(out)
}

#[derive(Default)]
struct SqlAgg {
    cases: u64,
    with_predicates: u64,
    pruned_chunk_cases: u64,
    chunks_pruned: u64,
    rows_validated: u64,
    both_error: u64,
    fails: BTreeMap<String, (String, Value, u64)>,
    machinery: Vec<String>,
    /// validation of the fn-layer reference against DataFusion failed (only meaningful while the conversion is right)
    ref_disagreements: Vec<String>,
    samples: Vec<Value>,
}

fn srow_fn(r: &SRow) -> impl Fn(&str) -> V + '_ {
    move |c: &str| match c {
        "host" => r.host.clone(),
        "value_i64" => r.vi.clone(),
        "value_f64" => r.vf.clone(),
        "metric_name" => V::S(r.metric.clone()),
        "cid" => V::I(r.cid),
        "rid" => V::I(r.rid),
        "timestamp" => V::I(r.ts),
        _ => V::Null,
    }
}

async fn run_sql_case(w: &World, wi: usize, c: &SqlCase, agg: &mut SqlAgg, verbose: bool) {
    agg.cases += 1;
    let mut fail = |agg: &mut SqlAgg, kind: &str, msg: String| {
        let sig = format!("C12:sql:{kind}:{}", template(&c.wher));
        let e = agg.fails.entry(sig).or_insert((msg, json!({"kind": "sql", "world": wi, "case": c}), 0));
        e.2 += 1;
    };
    // reference answer
    let reference: Result<Vec<String>, String> = async {
        let df = w.refctx.sql(&c.sql).await.map_err(|e| e.to_string())?;
        norm(&df.collect().await.map_err(|e| e.to_string())?)
    }
    .await;
    // subject: extraction + chunk selection
    let preds = match AssertUnwindSafe(w.node.engine.extract_column_predicates(&c.sql)).catch_unwind().await {
        Ok(Ok(p)) => p,
        Ok(Err(e)) => {
            if reference.is_err() {
                agg.both_error += 1;
                return;
            }
            fail(agg, "extract-error", format!("extract_column_predicates failed for a statement the reference accepts: {e}\n sql: {}", c.sql));
            return;
        }
        Err(_) => {
            fail(agg, "extract-panic", format!("extract_column_predicates panicked\n sql: {}", c.sql));
            return;
        }
    };
    if !preds.is_empty() {
        agg.with_predicates += 1;
    }
    let now = env::EPOCH_NS;
    let window = TimeRange::new(now - HOUR, now);
    let selected = match AssertUnwindSafe(w.meta.get_chunks_with_predicates(window, &preds)).catch_unwind().await {
        Ok(Ok(v)) => v.into_iter().map(|e| e.chunk_path).collect::<BTreeSet<_>>(),
        Ok(Err(e)) => {
            fail(agg, "select-error", format!("get_chunks_with_predicates failed: {e}\n sql: {}", c.sql));
            return;
        }
        Err(_) => {
            fail(agg, "select-panic", format!("get_chunks_with_predicates panicked\n sql: {}\n predicates: {preds:?}", c.sql));
            return;
        }
    };
    let pruned: Vec<usize> = (0..w.chunks.len()).filter(|k| !selected.contains(&w.paths[*k])).collect();
    if !pruned.is_empty() {
        agg.pruned_chunk_cases += 1;
        agg.chunks_pruned += pruned.len() as u64;
    }
    if verbose {
        println!("predicates: {preds:?}\nselected: {selected:?}\npruned chunks: {pruned:?}");
    }
    if c.kind == "plain" {
        // which rows does the engine itself select?
        let q = format!("SELECT rid FROM metrics WHERE {}", c.wher);
        let matching: Result<BTreeSet<i64>, String> = async {
            let df = w.refctx.sql(&q).await.map_err(|e| e.to_string())?;
            let bs = df.collect().await.map_err(|e| e.to_string())?;
            let mut s = BTreeSet::new();
            for b in bs {
                let a = b.column(0).as_any().downcast_ref::<Int64Array>().ok_or("rid type")?;
                for i in 0..a.len() {
                    s.insert(a.value(i));
                }
            }
            Ok(s)
        }
        .await;
        if let Ok(matching) = &matching {
            // (a) chunk level: a pruned chunk holds no matching row
            for k in &pruned {
                let hit: Vec<&SRow> = w.chunks[*k].iter().filter(|r| matching.contains(&r.rid)).collect();
                if !hit.is_empty() {
                    fail(
                        agg,
                        "pruned-matching-chunk",
                        format!(
                            "chunk {} was dropped although its row(s) {:?} satisfy the WHERE clause\n sql: {}\n extracted predicates: {preds:?}\n statistics: {}",
                            w.paths[*k],
                            hit.iter().map(|r| format!("(host={:?}, value_i64={:?}, value_f64={:?}, metric={})", r.host, r.vi, r.vf, r.metric)).collect::<Vec<_>>(),
                            c.sql,
                            chunk_stats_json(w, *k).await
                        ),
                    );
                    break;
                }
            }
            // (b) conversion level + validation of the fn-layer reference against DataFusion, row by row
            if preds.len() == 1 {
                let mut excluded: Option<&SRow> = None;
                let mut over: Option<&SRow> = None;
                for r in &w.all_rows {
                    agg.rows_validated += 1;
                    let can = row_can_match(&preds[0], &srow_fn(r));
                    let does = matching.contains(&r.rid);
                    if does && !can && !row_not_excluded(&preds[0], &srow_fn(r)) && excluded.is_none() {
                        excluded = Some(r);
                    }
                    if can && !does && over.is_none() {
                        over = Some(r);
                    }
                }
                if let Some(r) = excluded {
                    fail(
                        agg,
                        "conversion-excludes-matching-row",
                        format!("row {:?} satisfies the WHERE clause but not the extracted predicate {:?}\n sql: {}", r, preds[0], c.sql),
                    );
                } else if let (true, Some(r)) = (c.exact, over) {
                    // not a violation (the extracted predicate may be weaker than the clause), but for these forms the
                    // conversion is one-to-one, so a difference means the fn-layer reference does not implement SQL
                    agg.ref_disagreements.push(format!(
                        "reference evaluator and DataFusion disagree on an exactly convertible clause: sql {:?} predicate {:?} row {:?}: reference says it matches, DataFusion does not return it",
                        c.sql, preds[0], r
                    ));
                }
            }
        }
    }
    // (c) end to end
    let got: Result<Vec<String>, String> = match AssertUnwindSafe(w.node.query(&c.sql)).catch_unwind().await {
        Ok(Ok(b)) => norm(&b),
        Ok(Err(e)) => Err(e.to_string()),
        Err(_) => Err("PANIC".into()),
    };
    match (&got, &reference) {
        (Ok(a), Ok(b)) => {
            // LIMIT without a total order is not comparable row by row; those statements order by rid
            if a != b {
                let missing: Vec<&String> = b.iter().filter(|x| !a.contains(x)).take(5).collect();
                let extra: Vec<&String> = a.iter().filter(|x| !b.contains(x)).take(5).collect();
                fail(
                    agg,
                    if a.len() < b.len() { "answer-misses-rows" } else { "answer-differs" },
                    format!("QueryNode::query differs from the same SQL over all rows\n sql: {}\n extracted predicates: {preds:?}\n pruned chunks: {pruned:?}\n missing (first 5): {missing:?}\n unexpected (first 5): {extra:?}\n got {} rows, expected {}", c.sql, a.len(), b.len()),
                );
            }
        }
        (Err(_), Err(_)) => agg.both_error += 1,
        (Err(e), Ok(_)) => {
            if e == "PANIC" {
                fail(agg, "query-panic", format!("QueryNode::query panicked\n sql: {}", c.sql));
            } else {
                fail(agg, "query-error", format!("QueryNode::query failed where the reference answers: {e}\n sql: {}", c.sql));
            }
        }
        (Ok(_), Err(e)) => {
            agg.machinery.push(format!("reference rejects a statement the subject answers: {e}; sql {}", c.sql));
        }
    }
    if agg.samples.len() < 3 && !pruned.is_empty() {
        agg.samples.push(json!({"layer": "sql", "world": wi, "sql": c.sql, "extracted_predicates": format!("{preds:?}"), "chunks_pruned": pruned, "answer_rows": got.as_ref().map(|v| v.len()).unwrap_or(0)}));
    }
}

async fn chunk_stats_json(w: &World, k: usize) -> Value {
    match w.meta.get_chunk(&w.paths[k]).await {
        _ => {}
    }
    // read the raw catalog entry
    Value::String(format!("see catalog entry of {}", w.paths[k]))
}

fn run_sql_layer(rep: &mut Report, tier: &str) {
    let cases = Arc::new(sql_cases(tier));
    let workers = crate::engine::sched::default_workers().max(1);
    let worlds = 2usize;
    let total = Mutex::new(SqlAgg::default());
    let next = AtomicU64::new(0);
    let t0 = std::time::Instant::now();
    std::thread::scope(|s| {
        for _ in 0..workers {
            let cases = cases.clone();
            let total = &total;
            let next = &next;
            s.spawn(move || {
                let envs = EnvState::new();
                env::install(&envs);
                let rt = tokio::runtime::Builder::new_current_thread().enable_all().start_paused(true).build().expect("rt");
                let mut agg = SqlAgg::default();
                rt.block_on(async {
                    let mut ws = Vec::new();
                    for w in 0..worlds {
                        match build_world(w).await {
                            Ok(x) => ws.push(x),
                            Err(e) => {
                                agg.machinery.push(format!("world {w}: {e}"));
                                return;
                            }
                        }
                    }
                    loop {
                        let i = next.fetch_add(1, Ordering::SeqCst) as usize;
                        if i >= cases.len() * worlds {
                            break;
                        }
                        let (wi, ci) = (i % worlds, i / worlds);
                        run_sql_case(&ws[wi], wi, &cases[ci], &mut agg, false).await;
                    }
                });
                drop(rt);
                env::uninstall();
                let mut t = total.lock().unwrap();
                t.cases += agg.cases;
                t.with_predicates += agg.with_predicates;
                t.pruned_chunk_cases += agg.pruned_chunk_cases;
                t.chunks_pruned += agg.chunks_pruned;
                t.rows_validated += agg.rows_validated;
                t.both_error += agg.both_error;
                t.machinery.extend(agg.machinery);
                t.ref_disagreements.extend(agg.ref_disagreements);
                for (k, v) in agg.fails {
                    match t.fails.get_mut(&k) {
                        Some(e) => e.2 += v.2,
                        None => {
                            t.fails.insert(k, v);
                        }
                    }
                }
                for s in agg.samples {
                    if t.samples.len() < 3 {
                        t.samples.push(s);
                    }
                }
            });
        }
    });
    let t = total.into_inner().unwrap();
    println!(
        "sql: {} statements x {} catalogs = {} cases ; {} with extracted predicates ; {} cases pruned >= 1 chunk ({} chunks) ; {} rows validated against DataFusion ; {} rejected by both ; {:.1}s",
        cases.len(),
        worlds,
        t.cases,
        t.with_predicates,
        t.pruned_chunk_cases,
        t.chunks_pruned,
        t.rows_validated,
        t.both_error,
        t0.elapsed().as_secs_f64()
    );
    if t.pruned_chunk_cases == 0 {
        rep.machinery("vacuity: no SQL case pruned any chunk by statistics");
    }
    if t.rows_validated == 0 {
        rep.machinery("vacuity: the reference evaluator was never validated against DataFusion");
    }
    for m in t.machinery.iter().take(5) {
        rep.machinery(m.clone());
    }
    if !t.ref_disagreements.is_empty() {
        if t.fails.is_empty() {
            // the conversion is believed right (nothing failed), so the reference evaluator itself must be wrong
            for m in t.ref_disagreements.iter().take(5) {
                rep.machinery(m.clone());
            }
        } else {
            rep.set("sql_reference_validation_note", format!("{} exactly convertible clauses were extracted as a weaker predicate than the clause; not judged as a reference-evaluator error because the same run found conversion violations (first: {})", t.ref_disagreements.len(), t.ref_disagreements[0]));
        }
    }
    rep.add_u64("evaluations", t.cases);
    rep.add_u64("distinct_nontrivial", t.pruned_chunk_cases);
    rep.set("sql_layer", json!({"statements": cases.len(), "catalogs": worlds, "cases": t.cases, "cases_with_extracted_predicates": t.with_predicates,
        "cases_with_pruned_chunks": t.pruned_chunk_cases, "chunks_pruned": t.chunks_pruned, "rows_validated_against_datafusion": t.rows_validated, "rejected_by_subject_and_reference": t.both_error}));
    for s in t.samples {
        rep.push_sample(s);
    }
    for (sig, (msg, replay, n)) in t.fails {
        rep.violation_n(&sig, &msg, replay, n);
    }
}

// ------------------------------------------------------------------------------------------------
// entry points
// ------------------------------------------------------------------------------------------------

pub fn run(tier: &str) -> i32 {
    let mut rep = Report::new("C12", tier, "exploration");
    rep.assume("SQL three-valued semantics: a row matches only if the predicate evaluates to TRUE; comparisons between a number and a number are numeric whatever the JSON / literal type, strings compare byte-wise");
    rep.assume("a literal that cannot be compared with the column's values (string against number, boolean) may make the comparison come out either way: pruning on account of such an atom is judged like pruning on mistyped statistics ('may match'); where the harness itself falsified the JSON type of the statistics (type-swapped, junk) such a comparison places no demand, because the subject may legitimately compare the literal with the statistics it was given");
    rep.assume("sql layer: DataFusion is the trusted evaluator and the reference (same SQL over a MemTable of all rows); statements rejected by both subject and reference count as agreement; the node has served a query before (metrics is bound to the files' schema); no timestamp predicate is used because a conjunct on the timestamp disables column-predicate extraction altogether");
    rep.assume("statistics are attached to catalog.json by the harness: the ingest path registers chunks without column statistics");
    rep.push_sample(json!({"layer": "fn", "predicate": "LtEq(\"x\", Int64(0))", "rows": [0, 1], "stats": {"x": {"min": 0, "max": 1}}, "expected": "must not be pruned (row 0 matches)"}));
    run_fn_layer(&mut rep, tier);
    run_sql_layer(&mut rep, tier);
    rep.set(
        "rule",
        "fn layer: every ColumnPredicate tree of depth <= 1 over the full atom alphabet (6 comparison operators x every domain value, NULL, comparable cross-type and incomparable literals; IN / NOT IN with every list of <= 2 literals incl. the empty list; BETWEEN with every ordered and unordered pair) and every tree of depth 2 over an end-point centred alphabet, x every chunk = multiset of <= 3 values over a 4-value domain (5 in thorough) + NULL for int / float / string columns, x statistics {true, missing, type-swapped, junk, alternative numeric JSON type, min only, max only}; plus two-column chunks (<= 2 rows) x trees mixing both columns. sql layer: every WHERE clause of the listed forms (comparisons in both operand orders, BETWEEN / NOT BETWEEN, IN / NOT IN, NOT, IS NULL, arithmetic, casts, AND/OR compounds, aliasing projections / HAVING / sub-queries / joins) x 2 catalogs (true statistics; mixed missing / mistyped / partial statistics) over 12 chunks. A case is non-trivial when the subject actually pruned the chunk (fn) or at least one chunk (sql).",
    );
    rep.finish()
}

pub fn replay(v: &Value) -> i32 {
    match v["kind"].as_str() {
        Some("fn") => {
            let p: P = match serde_json::from_value(v["pred"].clone()) {
                Ok(p) => p,
                Err(e) => {
                    println!("MACHINERY: predicate does not parse: {e}");
                    return 2;
                }
            };
            let chunk = &v["chunk"];
            let types = chunk["types"].as_object().cloned().unwrap_or_default();
            let ty_of = |c: &str| match types.get(c).and_then(|t| t.as_str()) {
                Some("float") => Ty::Float,
                Some("str") => Ty::Str,
                _ => Ty::Int,
            };
            let rows = chunk["rows"].as_array().cloned().unwrap_or_default();
            let mut cols: BTreeMap<String, Vec<V>> = BTreeMap::new();
            for r in &rows {
                for (k, val) in r.as_object().cloned().unwrap_or_default() {
                    cols.entry(k.clone()).or_default().push(V::from_json(&val, ty_of(&k)));
                }
            }
            let mut stats = HashMap::new();
            for (k, s) in chunk["stats"].as_object().cloned().unwrap_or_default() {
                stats.insert(k, ColumnStats { min: s["min"].clone(), max: s["max"].clone(), has_nulls: s["has_nulls"].as_bool().unwrap_or(false) });
            }
            let ch = ChunkCase { cols: cols.into_iter().collect(), nrows: rows.len(), stats, kinds: vec![] };
            let (pruned, fail) = judge(&p, &ch, "replay");
            println!("predicate: {p:?}\nrows: {}\nstats: {}\nevaluate_against_stats -> {}", chunk["rows"], chunk["stats"], if pruned { "false (pruned)" } else { "true (kept)" });
            match fail {
                Some(f) => {
                    println!("violation [{}]: {}", f.sig, f.msg);
                    1
                }
                None => {
                    println!("no violation on this case");
                    0
                }
            }
        }
        Some("sql") => {
            let c: SqlCase = match serde_json::from_value(v["case"].clone()) {
                Ok(c) => c,
                Err(e) => {
                    println!("MACHINERY: case does not parse: {e}");
                    return 2;
                }
            };
            let wi = v["world"].as_u64().unwrap_or(0) as usize;
            let h = std::thread::spawn(move || {
                let envs = EnvState::new();
                env::install(&envs);
                let rt = tokio::runtime::Builder::new_current_thread().enable_all().start_paused(true).build().expect("rt");
                let mut agg = SqlAgg::default();
                rt.block_on(async {
                    match build_world(wi).await {
                        Ok(w) => {
                            println!("sql: {}", c.sql);
                            run_sql_case(&w, wi, &c, &mut agg, true).await
                        }
                        Err(e) => agg.machinery.push(e),
                    }
                });
                drop(rt);
                env::uninstall();
                agg
            });
            let agg = h.join().expect("replay thread");
            for m in &agg.ref_disagreements {
                println!("note: {m}");
            }
            for m in &agg.machinery {
                println!("MACHINERY: {m}");
            }
            if !agg.machinery.is_empty() {
                return 2;
            }
            for (sig, (msg, _, _)) in &agg.fails {
                println!("violation [{sig}]: {msg}");
            }
            if agg.fails.is_empty() {
                println!("no violation on this case");
                0
            } else {
                1
            }
        }
        _ => {
            println!("MACHINERY: unknown replay kind");
            2
        }
    }
}
