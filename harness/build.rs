fn main() {
    // Export the binary's symbols dynamically so that dlsym("getrandom") (used by the
    // getrandom crate's linux backend) resolves to the interposer defined in the binary.
    println!("cargo:rustc-link-arg-bins=-rdynamic");
}
